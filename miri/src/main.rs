//! Miri scenarios (DESIGN §2.4): Miri is the controlled scheduler and address chooser.
//! `-Zmiri-seed=N` fixes the preemption schedule and where statics and heap blocks land; its
//! race detector reports unsynchronised conflicting accesses in the explored execution.
//!
//!   bumpmiri zst            C04: zero-sized / over-aligned requests on chunk-less arenas
//!   bumpmiri threads <s>    C20: threads each driving their own arena (script seed s)
//!   bumpmiri handover <s>   C20: idle arenas handed over between threads
//!   bumpmiri scripts <s>    C01/C03/C12: short single-threaded arena scripts (UB checks only)
//!   bumpmiri collections <s> C13/C14/C17: Vec / String / Box programs mirrored on std
//!   bumpmiri arena <s>      C01/C02/C10/C11/C12: every arena entry point, contents re-read, minimum alignments 1, 2, 8, 16

use allocator_api2::alloc::Allocator;
use bumpalo::Bump;
use std::alloc::Layout;

struct Rng(u64);
impl Rng {
    fn next(&mut self) -> u64 {
        self.0 = self.0.wrapping_add(0x9E37_79B9_7F4A_7C15);
        let mut z = self.0;
        z = (z ^ (z >> 30)).wrapping_mul(0xBF58_476D_1CE4_E5B9);
        z = (z ^ (z >> 27)).wrapping_mul(0x94D0_49BB_1331_11EB);
        z ^ (z >> 31)
    }
    fn below(&mut self, n: u64) -> u64 {
        self.next() % n.max(1)
    }
}

fn fail(prop: &str, msg: String) -> ! {
    println!("VIOLATION-DETAIL property={} {}", prop, msg);
    std::process::exit(1);
}

fn zst_on<const M: usize>() {
    // several arenas so that not only the first touch of the static is observed
    for round in 0..3 {
        let b = Bump::<M>::with_min_align();
        for log in 0..=4 {
            let align = 1usize << log;
            let l = Layout::from_size_align(0, align).unwrap();
            match b.try_alloc_layout(l) {
                Ok(p) => {
                    let a = p.as_ptr() as usize;
                    if a % align != 0 || a % M != 0 || a == 0 {
                        fail(
                            "C04",
                            format!("sig=C04/misaligned-zero-sized/chunkless MIN_ALIGN {} align {} addr%16={} round {}", M, align, a % 16, round),
                        );
                    }
                }
                Err(_) => fail("C04", format!("sig=C04/zero-sized-failed/chunkless MIN_ALIGN {} align {}", M, align)),
            }
            if b.allocated_bytes() != 0 && align <= 16 && round == 0 && log == 0 {
                // a chunk-less arena may or may not allocate for this; nothing is stated
            }
        }
        let u: &mut () = b.alloc(());
        let s: &mut [u64] = b.alloc_slice_copy::<u64>(&[]);
        let t: &mut str = b.alloc_str("");
        for a in [u as *mut () as usize, s.as_ptr() as usize, t.as_ptr() as usize] {
            if a % M != 0 {
                fail("C04", format!("sig=C04/misaligned-zero-sized/chunkless typed MIN_ALIGN {} addr%16={}", M, a % 16));
            }
        }
        if s.as_ptr() as usize % 8 != 0 {
            fail("C04", "sig=C04/misaligned-zero-sized/chunkless empty u64 slice".to_string());
        }
    }
}

fn scenario_zst() {
    // bumpalo's own debug assertion may notice the misalignment first
    std::panic::set_hook(Box::new(|_| {}));
    let r = std::panic::catch_unwind(scenario_zst_inner);
    if let Err(p) = r {
        let msg = p.downcast_ref::<String>().cloned().or_else(|| p.downcast_ref::<&str>().map(|s| s.to_string())).unwrap_or_default();
        if msg.contains("aligned") {
            fail("C04", format!("sig=C04/alignment-assertion/chunkless {}", msg.replace('\n', " ")));
        }
        fail("C04", format!("sig=C04/zero-sized-request-panicked/chunkless {}", msg.replace('\n', " ")));
    }
}

fn scenario_zst_inner() {
    zst_on::<1>();
    zst_on::<2>();
    zst_on::<4>();
    zst_on::<8>();
    zst_on::<16>();
}

/// One arena driven by a seeded script; returns its observable trace (address-free).
fn drive(seed: u64, zst_first: bool, never_alloc: bool, steps: usize) -> Vec<(u8, usize, usize, u64)> {
    let mut r = Rng(seed);
    let mut b = Bump::new();
    let mut trace = Vec::new();
    let mut sum: u64 = 0;
    if zst_first {
        for log in 0..4 {
            let p = b.alloc_layout(Layout::from_size_align(0, 1 << log).unwrap());
            sum = sum.wrapping_add((p.as_ptr() as usize % (1 << log)) as u64);
            let _ = b.alloc(());
            trace.push((0, b.chunk_capacity(), b.allocated_bytes(), sum));
        }
        // zero-sized values through every other entry point that can touch the bump pointer
        // while the arena is still chunk-less
        let e1 = b.alloc_try_with(|| -> Result<std::convert::Infallible, ()> { Err(()) }).is_err();
        let e2 = b.try_alloc_try_with(|| -> Result<std::convert::Infallible, ()> { Err(()) }).is_err();
        let _ = b.alloc_try_with(|| -> Result<(), std::convert::Infallible> { Ok(()) });
        // zero-sized results whose alignment exceeds the arena's minimum alignment
        #[derive(Debug)]
        #[repr(align(16))]
        struct Z16;
        let e3 = b.alloc_try_with(|| -> Result<std::convert::Infallible, [u64; 0]> { Err([]) }).is_err();
        let e4 = b.try_alloc_try_with(|| -> Result<std::convert::Infallible, Z16> { Err(Z16) }).is_err();
        let e5 = b.alloc_try_with(|| -> Result<std::convert::Infallible, Z16> { Err(Z16) }).is_err();
        let _ = b.try_alloc_try_with(|| -> Result<[u32; 0], std::convert::Infallible> { Ok([]) });
        let _ = b.alloc_slice_try_fill_with::<[u64; 0], _, Z16>(2, |i| if i == 1 { Err(Z16) } else { Ok([]) });
        sum = sum.wrapping_add(e3 as u64 + e4 as u64 + e5 as u64);
        let _: &mut [()] = b.alloc_slice_fill_with(3, |_| ());
        let _ = b.alloc_slice_try_fill_with::<(), _, ()>(2, |i| if i == 1 { Err(()) } else { Ok(()) });
        let _: &mut [u64] = b.alloc_slice_fill_default(0);
        let _ = b.alloc_str("");
        {
            let l0 = Layout::from_size_align(0, 8).unwrap();
            if let Ok(p) = (&b).allocate(l0) {
                let p = p.cast::<u8>();
                if let Ok(q) = unsafe { (&b).shrink(p, l0, Layout::from_size_align(0, 4).unwrap()) } {
                    let q = q.cast::<u8>();
                    if let Ok(r2) = unsafe { (&b).grow(q, Layout::from_size_align(0, 4).unwrap(), Layout::from_size_align(0, 4).unwrap()) } {
                        unsafe { (&b).deallocate(r2.cast(), Layout::from_size_align(0, 4).unwrap()) };
                    }
                }
            }
        }
        // resetting (and iterating) an arena that still owns nothing must not touch shared state
        b.reset();
        let n0: usize = b.iter_allocated_chunks().count();
        b.reset();
        sum = sum.wrapping_add(e1 as u64 + e2 as u64 + n0 as u64);
        trace.push((0, b.chunk_capacity(), b.allocated_bytes(), sum));
    }
    if never_alloc {
        for _ in 0..steps {
            let _: &mut [u8] = b.alloc_slice_copy(&[]);
            let _ = b.alloc(());
            b.reset();
            trace.push((9, b.chunk_capacity(), b.allocated_bytes(), sum));
        }
        return trace;
    }
    let mut keep: Vec<(*mut u64, u64)> = Vec::new();
    for _ in 0..steps {
        let op = r.below(8) as u8;
        match op {
            0 | 1 => {
                let v = r.next();
                let p = b.alloc(v);
                keep.push((p as *mut u64, v));
            }
            2 => {
                let n = r.below(40) as usize;
                let src: Vec<u8> = (0..n).map(|i| i as u8).collect();
                let s = b.alloc_slice_copy(&src);
                sum = sum.wrapping_add(s.iter().map(|&x| x as u64).sum::<u64>());
            }
            3 => {
                let _ = b.alloc(());
                let l = Layout::from_size_align(0, 1 << r.below(5)).unwrap();
                let _ = b.alloc_layout(l);
            }
            4 => {
                let l = Layout::from_size_align(r.below(300) as usize, 1 << r.below(5)).unwrap(); // <= 16: independent of where the chunk lands
                let p = b.alloc_layout(l);
                unsafe { std::ptr::write_bytes(p.as_ptr(), 0x11, l.size()) };
            }
            5 => {
                // Allocator API on a block
                let l = Layout::from_size_align(1 + r.below(64) as usize, 8).unwrap();
                if let Ok(p) = (&b).allocate(l) {
                    let p = p.cast::<u8>();
                    unsafe { std::ptr::write_bytes(p.as_ptr(), 0x22, l.size()) };
                    let l2 = Layout::from_size_align(l.size() + r.below(64) as usize, 8).unwrap();
                    if let Ok(q) = unsafe { (&b).grow(p, l, l2) } {
                        let q = q.cast::<u8>();
                        sum = sum.wrapping_add(unsafe { *q.as_ptr() } as u64);
                        unsafe { (&b).deallocate(q, l2) };
                    }
                }
            }
            6 => {
                for (p, v) in keep.drain(..) {
                    sum = sum.wrapping_add(unsafe { *p } ^ v);
                }
                b.reset();
            }
            _ => {
                let n: usize = b.iter_allocated_chunks().map(|c| c.len()).sum();
                sum = sum.wrapping_add(n as u64);
            }
        }
        trace.push((op + 1, b.chunk_capacity(), b.allocated_bytes(), sum));
    }
    for (p, v) in keep.drain(..) {
        sum = sum.wrapping_add(unsafe { *p } ^ v);
    }
    trace.push((99, b.chunk_capacity(), b.allocated_bytes(), sum));
    trace
}

fn scenario_threads(seed: u64) {
    let mut r = Rng(seed ^ 0xABCD);
    let k = 2 + (r.below(2) as usize);
    let cfg: Vec<(u64, bool, bool, usize)> = (0..k)
        .map(|i| (seed.wrapping_mul(31).wrapping_add(i as u64), r.below(2) == 0, r.below(4) == 0, 6 + r.below(10) as usize))
        .collect();
    // solo traces first (sequentially, on this thread)
    let solo: Vec<_> = cfg.iter().map(|c| drive(c.0, c.1, c.2, c.3)).collect();
    let handles: Vec<_> = cfg
        .iter()
        .cloned()
        .map(|c| std::thread::spawn(move || drive(c.0, c.1, c.2, c.3)))
        .collect();
    for (i, h) in handles.into_iter().enumerate() {
        let t = h.join().unwrap();
        if t != solo[i] {
            fail("C20", format!("sig=C20/threaded-trace-differs-from-solo arena {}", i));
        }
    }
}

fn scenario_handover(seed: u64) {
    let mut r = Rng(seed ^ 0x4444);
    let (tx, rx) = std::sync::mpsc::channel::<Bump>();
    let consumer = std::thread::spawn(move || {
        let mut n = 0usize;
        for mut b in rx {
            // use and drop the arena on this thread
            let x = b.alloc(7u32);
            n += *x as usize;
            let _ = b.alloc(());
            b.reset();
            let s = b.alloc_str("moved");
            n += s.len();
            drop(b);
        }
        n
    });
    let mut mine = Bump::new();
    for i in 0..4 {
        let mut b = Bump::new();
        match r.below(4) {
            0 => {} // fresh, never allocated
            1 => {
                let _ = b.alloc(());
            }
            2 => {
                let v = b.alloc(i as u64);
                *v += 1;
            }
            _ => {
                let _ = b.alloc([0u8; 600]);
                b.reset();
            }
        }
        tx.send(b).unwrap();
        // the sender goes on with another arena meanwhile
        let _ = mine.alloc(());
        let _ = mine.alloc(i);
        if i == 2 {
            mine.reset();
        }
    }
    drop(tx);
    let n = consumer.join().unwrap();
    if n != 4 * (7 + 5) {
        fail("C20", format!("sig=C20/handed-over-arena-misbehaved total {}", n));
    }
}

fn scenario_scripts(seed: u64) {
    for i in 0..4 {
        let t = drive(seed.wrapping_mul(77).wrapping_add(i), i % 2 == 0, false, 14);
        let t2 = drive(seed.wrapping_mul(77).wrapping_add(i), i % 2 == 0, false, 14);
        if t != t2 {
            fail("C20", "sig=C20/same-history-different-trace".to_string());
        }
    }
}

/// C13/C14/C17 under Miri: seeded Vec / String / Box programs in one arena, mirrored on std.
/// Natively an out-of-bounds *read*, a read of uninitialised bytes or an overlapping
/// `copy_nonoverlapping` inside a chunk has no visible effect; Miri reports it.
fn scenario_collections(seed: u64) {
    use bumpalo::boxed::Box as BBox;
    use bumpalo::collections::{String as BString, Vec as BVec};
    let mut r = Rng(seed ^ 0xC011);
    let bump = Bump::new();
    let mut bv: BVec<u64> = BVec::new_in(&bump);
    let mut sv: Vec<u64> = Vec::new();
    let mut bs = BString::new_in(&bump);
    let mut ss = String::new();
    let chars = ['a', 'é', '語', '😀', 'Z'];
    for step in 0..240 {
        let x = r.next() % 1000;
        match r.below(22) {
            0..=3 => {
                bv.push(x);
                sv.push(x);
            }
            4 => {
                assert_eq!(bv.pop(), sv.pop());
            }
            5 => {
                let i = r.below(sv.len() as u64 + 1) as usize;
                bv.insert(i, x);
                sv.insert(i, x);
            }
            6 => {
                if !sv.is_empty() {
                    let i = r.below(sv.len() as u64) as usize;
                    assert_eq!(bv.remove(i), sv.remove(i));
                }
            }
            7 => {
                let n = r.below(9) as usize;
                bv.extend((0..n as u64).map(|k| k + x));
                sv.extend((0..n as u64).map(|k| k + x));
            }
            8 => {
                let a = r.below(sv.len() as u64 + 1) as usize;
                let b = a + r.below((sv.len() - a) as u64 + 1) as usize;
                let d1: Vec<u64> = bv.drain(a..b).collect();
                let d2: Vec<u64> = sv.drain(a..b).collect();
                assert_eq!(d1, d2);
            }
            9 => {
                let a = r.below(sv.len() as u64 + 1) as usize;
                let b = a + r.below((sv.len() - a) as u64 + 1) as usize;
                let n = r.below(6);
                let d1: Vec<u64> = bv.splice(a..b, (0..n).map(|k| k * 3 + x)).collect();
                let d2: Vec<u64> = sv.splice(a..b, (0..n).map(|k| k * 3 + x)).collect();
                assert_eq!(d1, d2);
            }
            10 => {
                bv.retain(|v| v % 3 != 0);
                sv.retain(|v| v % 3 != 0);
            }
            11 => {
                bv.dedup_by_key(|v| *v / 10);
                sv.dedup_by_key(|v| *v / 10);
            }
            12 => {
                let at = r.below(sv.len() as u64 + 1) as usize;
                let t1 = bv.split_off(at);
                let t2 = sv.split_off(at);
                assert_eq!(&t1[..], &t2[..]);
            }
            13 => {
                let n = r.below(12) as usize;
                bv.resize(n, x);
                sv.resize(n, x);
            }
            14 => {
                bv.shrink_to_fit();
                bv.reserve(r.below(20) as usize);
            }
            15 => {
                let c = chars[r.below(5) as usize];
                bs.push(c);
                ss.push(c);
            }
            16 => {
                assert_eq!(bs.pop(), ss.pop());
            }
            17 => {
                let mut i = r.below(ss.len() as u64 + 1) as usize;
                while !ss.is_char_boundary(i) {
                    i -= 1;
                }
                bs.insert_str(i, "xé");
                ss.insert_str(i, "xé");
            }
            18 => {
                bs.retain(|c| c != 'x');
                ss.retain(|c| c != 'x');
            }
            19 => {
                let mut a = r.below(ss.len() as u64 + 1) as usize;
                while !ss.is_char_boundary(a) {
                    a -= 1;
                }
                bs.replace_range(a.., "語!");
                ss.replace_range(a.., "語!");
            }
            20 => {
                let b1 = BBox::new_in([x; 3], &bump);
                let s1: BBox<[u64]> = b1.into();
                let back = BBox::<[u64; 3]>::try_from(s1).ok().unwrap();
                assert_eq!(*back, [x; 3]);
                let lossy = BString::from_utf8_lossy_in(&[0xF0, 0x90, (x % 256) as u8, 0x41], &bump);
                assert_eq!(lossy.as_str(), String::from_utf8_lossy(&[0xF0, 0x90, (x % 256) as u8, 0x41]));
            }
            _ => {
                let bx = bv.clone().into_boxed_slice();
                assert_eq!(&bx[..], &sv[..]);
                let _ = bump.alloc_slice_copy(&[step as u8; 5]);
            }
        }
        if bv[..] != sv[..] || bs.as_str() != ss.as_str() || bv.capacity() < bv.len() {
            fail("C13", format!("sig=C13/miri-collections-differ-from-std step {}", step));
        }
    }
}

/// C01/C02/C10/C11/C12 under Miri: one arena of minimum alignment M driven through every arena
/// entry point; every value handed out is remembered with what it must contain and re-read at the
/// end and before every reset. Natively an out-of-bounds or uninitialised *read*, an overlapping
/// `copy_nonoverlapping` or a reference used after its memory was handed out again are invisible.
fn arena_on<const M: usize>(seed: u64) {
    let mut r = Rng(seed ^ (M as u64) << 32 ^ 0xA7E4A);
    let mut b = Bump::<M>::with_min_align();
    // (address, expected bytes)
    let mut live: Vec<(*const u8, Vec<u8>)> = Vec::new();
    let verify = |live: &Vec<(*const u8, Vec<u8>)>, when: &str| {
        for (i, (p, want)) in live.iter().enumerate() {
            let got = unsafe { std::slice::from_raw_parts(*p, want.len()) };
            if got != &want[..] {
                fail("C02", format!("sig=C02/miri-live-block-changed {} block {} of {} bytes", when, i, want.len()));
            }
        }
    };
    let bytes = |seed: u64, n: usize| -> Vec<u8> { (0..n).map(|k| (seed as u8).wrapping_mul(31).wrapping_add(k as u8) | 1).collect() };
    for step in 0..70u64 {
        let x = r.next();
        match r.below(24) {
            0 => {
                let p = b.alloc(x);
                live.push((p as *const u64 as *const u8, x.to_ne_bytes().to_vec()));
            }
            1 => {
                let p = b.alloc_with(|| (x as u32, 7u8));
                let ok = p.0 == x as u32 && p.1 == 7;
                if !ok {
                    fail("C02", "sig=C02/miri-wrong-initial-contents alloc_with".to_string());
                }
            }
            2 => {
                if let Ok(p) = b.try_alloc([x; 3]) {
                    let mut w = Vec::new();
                    for _ in 0..3 {
                        w.extend_from_slice(&x.to_ne_bytes());
                    }
                    live.push((p.as_ptr() as *const u8, w));
                }
            }
            3 => {
                let _ = b.try_alloc_with(|| [x as u16; 5]);
            }
            4 => {
                // failing initialiser that keeps an inner allocation alive
                let mut inner: Option<*const u64> = None;
                let res = b.alloc_try_with(|| -> Result<[u64; 4], u32> {
                    let q = b.alloc(x ^ 1);
                    inner = Some(q as *const u64);
                    if x % 2 == 0 {
                        Err(5)
                    } else {
                        Ok([x; 4])
                    }
                });
                if let Some(q) = inner {
                    live.push((q as *const u8, (x ^ 1).to_ne_bytes().to_vec()));
                }
                match res {
                    Ok(v) => {
                        if v[3] != x {
                            fail("C02", "sig=C02/miri-wrong-initial-contents alloc_try_with".to_string());
                        }
                    }
                    Err(e) => {
                        if e != 5 {
                            fail("C11", "sig=C11/miri-error-value-changed".to_string());
                        }
                    }
                }
            }
            5 => {
                let res = b.try_alloc_try_with(|| -> Result<u128, [u8; 40]> { if x % 3 == 0 { Err([9; 40]) } else { Ok(x as u128) } });
                match res {
                    Ok(v) => {
                        if *v != x as u128 {
                            fail("C02", "sig=C02/miri-wrong-initial-contents try_alloc_try_with".to_string());
                        }
                    }
                    Err(bumpalo::AllocOrInitError::Init(e)) => {
                        if e != [9u8; 40] {
                            fail("C11", "sig=C11/miri-error-value-changed try".to_string());
                        }
                    }
                    Err(bumpalo::AllocOrInitError::Alloc(_)) => {}
                }
            }
            6 => {
                let n = r.below(50) as usize;
                let src = bytes(x, n);
                let p = b.alloc_slice_copy(&src);
                live.push((p.as_ptr(), src));
            }
            7 => {
                let n = r.below(6) as usize;
                let src: Vec<String> = (0..n).map(|i| format!("s{}{}", i, x % 97)).collect();
                let p = b.alloc_slice_clone(&src);
                if p.iter().zip(src.iter()).any(|(a, c)| a != c) {
                    fail("C02", "sig=C02/miri-wrong-initial-contents alloc_slice_clone".to_string());
                }
                // the arena never runs destructors: take the strings out again
                for s in p.iter_mut() {
                    drop(std::mem::take(s));
                }
            }
            8 => {
                let n = r.below(40) as usize;
                let p = b.alloc_slice_fill_with(n, |i| (i as u32).wrapping_mul(x as u32));
                if p.iter().enumerate().any(|(i, v)| *v != (i as u32).wrapping_mul(x as u32)) {
                    fail("C02", "sig=C02/miri-wrong-initial-contents fill_with".to_string());
                }
            }
            9 => {
                let n = r.below(40) as usize;
                let p = b.alloc_slice_fill_copy(n, x as u16);
                let q = b.alloc_slice_fill_clone(n.min(5), &(x as u8, x));
                let d: &mut [u64] = b.alloc_slice_fill_default(n.min(9));
                if p.iter().any(|v| *v != x as u16) || q.iter().any(|v| v.1 != x) || d.iter().any(|v| *v != 0) {
                    fail("C02", "sig=C02/miri-wrong-initial-contents fill_copy/clone/default".to_string());
                }
            }
            10 => {
                let n = r.below(30) as usize;
                let p = b.alloc_slice_fill_iter((0..n).map(|i| i as u64 ^ x));
                let mut w = Vec::new();
                for i in 0..n {
                    w.extend_from_slice(&(i as u64 ^ x).to_ne_bytes());
                }
                live.push((p.as_ptr() as *const u8, w));
            }
            11 => {
                let fail_at = r.below(12) as usize;
                let n = r.below(10) as usize;
                let res = b.alloc_slice_try_fill_with(n, |i| if i == fail_at { Err(i as u8) } else { Ok(x.wrapping_add(i as u64)) });
                match res {
                    Ok(p) => {
                        if p.iter().enumerate().any(|(i, v)| *v != x.wrapping_add(i as u64)) {
                            fail("C02", "sig=C02/miri-wrong-initial-contents slice_try_fill".to_string());
                        }
                    }
                    Err(e) => {
                        if e as usize != fail_at {
                            fail("C11", "sig=C11/miri-error-value-changed slice".to_string());
                        }
                    }
                }
            }
            12 => {
                let t: String = (0..r.below(20)).map(|i| ['a', 'é', '語', '😀'][(x as usize + i as usize) % 4]).collect();
                let p = b.alloc_str(&t);
                live.push((p.as_ptr(), t.into_bytes()));
            }
            13 | 14 => {
                let l = Layout::from_size_align(r.below(700) as usize, 1 << r.below(5)).unwrap();
                if let Ok(p) = b.try_alloc_layout(l) {
                    let w = bytes(x, l.size());
                    unsafe { std::ptr::copy_nonoverlapping(w.as_ptr(), p.as_ptr(), l.size()) };
                    live.push((p.as_ptr() as *const u8, w));
                }
            }
            15..=18 => {
                // Allocator: allocate(_zeroed), then grow(_zeroed) or shrink with an alignment that
                // may change, then sometimes deallocate
                let a0 = 1usize << r.below(5);
                let l0 = Layout::from_size_align(1 + r.below(90) as usize, a0).unwrap();
                let zeroed = r.below(2) == 0;
                let got = if zeroed { (&b).allocate_zeroed(l0) } else { (&b).allocate(l0) };
                if let Ok(p0) = got {
                    let p0 = p0.cast::<u8>();
                    if zeroed && unsafe { std::slice::from_raw_parts(p0.as_ptr(), l0.size()) }.iter().any(|v| *v != 0) {
                        fail("C12", "sig=C12/miri-allocate-zeroed-not-zero".to_string());
                    }
                    let w0 = bytes(x, l0.size());
                    unsafe { std::ptr::copy_nonoverlapping(w0.as_ptr(), p0.as_ptr(), l0.size()) };
                    // a neighbour allocated in between, sometimes
                    if r.below(3) == 0 {
                        let q = b.alloc(x ^ 0xFF);
                        live.push((q as *const u64 as *const u8, (x ^ 0xFF).to_ne_bytes().to_vec()));
                    }
                    let a1 = 1usize << r.below(5);
                    let grow = r.below(2) == 0;
                    let n1 = if grow { l0.size() + r.below(200) as usize } else { r.below(l0.size() as u64 + 1) as usize };
                    let l1 = Layout::from_size_align(n1, if grow { a1.min(a0) } else { a1 }).unwrap();
                    let gz = r.below(2) == 0;
                    let res = unsafe {
                        if grow {
                            if gz {
                                (&b).grow_zeroed(p0, l0, l1)
                            } else {
                                (&b).grow(p0, l0, l1)
                            }
                        } else {
                            (&b).shrink(p0, l0, l1)
                        }
                    };
                    match res {
                        Ok(p1) => {
                            let p1 = p1.cast::<u8>();
                            let keep = l0.size().min(l1.size());
                            let got = unsafe { std::slice::from_raw_parts(p1.as_ptr(), keep) };
                            if got != &w0[..keep] {
                                fail("C12", format!("sig=C12/miri-prefix-not-preserved {}", if grow { "grow" } else { "shrink" }));
                            }
                            if grow && gz && unsafe { std::slice::from_raw_parts(p1.as_ptr().add(keep), l1.size() - keep) }.iter().any(|v| *v != 0) {
                                fail("C12", "sig=C12/miri-grow-zeroed-tail-not-zero".to_string());
                            }
                            if p1.as_ptr() as usize % l1.align() != 0 {
                                fail("C04", "sig=C04/miri-misaligned-after-realloc".to_string());
                            }
                            if r.below(2) == 0 {
                                unsafe { (&b).deallocate(p1, l1) };
                            } else {
                                live.push((p1.as_ptr() as *const u8, w0[..keep].to_vec()));
                            }
                        }
                        Err(_) => live.push((p0.as_ptr() as *const u8, w0)),
                    }
                }
            }
            19 => {
                // chunk iteration: the newest chunk first, every live block inside exactly one item
                let items: Vec<(usize, usize)> = unsafe { b.iter_allocated_chunks_raw() }.map(|(p, n)| (p as usize, n)).collect();
                for (p, w) in &live {
                    if w.is_empty() {
                        continue;
                    }
                    let a = *p as usize;
                    let n = items.iter().filter(|(s, l)| a >= *s && a + w.len() <= *s + *l).count();
                    if n != 1 {
                        fail("C10", format!("sig=C10/miri-live-block-not-in-exactly-one-item ({} items contain it)", n));
                    }
                }
                let safe: Vec<(usize, usize)> = b.iter_allocated_chunks().map(|c| (c.as_ptr() as usize, c.len())).collect();
                if safe != items {
                    fail("C10", "sig=C10/miri-safe-and-raw-iteration-differ".to_string());
                }
            }
            20 => {
                verify(&live, "before reset");
                live.clear();
                b.reset();
                if b.iter_allocated_chunks().map(|c| c.len()).sum::<usize>() != 0 {
                    fail("C06", "sig=C06/miri-allocated-bytes-shown-after-reset".to_string());
                }
            }
            21 => {
                // a limit that forbids any new chunk: what fits still succeeds, the rest fails cleanly
                let held = b.allocated_bytes();
                b.set_allocation_limit(Some(held));
                let big = b.try_alloc_layout(Layout::from_size_align(b.chunk_capacity() + 64, 1).unwrap());
                if big.is_ok() && b.allocated_bytes() > held {
                    fail("C07", "sig=C07/miri-chunk-over-limit".to_string());
                }
                b.set_allocation_limit(None);
            }
            _ => {
                let (cc, ab, abm) = (b.chunk_capacity(), b.allocated_bytes(), b.allocated_bytes_including_metadata());
                if abm < ab || (ab == 0) != (abm == 0) || cc > ab {
                    fail("C08", format!("sig=C08/miri-accounting-inconsistent step {}", step));
                }
            }
        }
    }
    verify(&live, "at the end");
}

/// C06: "resetting an arena that never obtained memory is a no-op". Natively a reset that stores
/// the values already there into the shared static empty chunk cannot be told from one that does
/// nothing; two threads doing it at once are a data race that Miri reports.
fn scenario_chunkless_reset(seed: u64) {
    let mut r = Rng(seed ^ 0xC06);
    let n = 2 + r.below(2) as usize;
    let rounds: Vec<usize> = (0..n).map(|_| 1 + r.below(3) as usize).collect();
    let handles: Vec<_> = rounds
        .into_iter()
        .map(|k| {
            std::thread::spawn(move || {
                let mut seen = 0usize;
                for _ in 0..k {
                    let mut b = Bump::new();
                    b.reset();
                    b.reset();
                    seen += b.allocated_bytes() + b.iter_allocated_chunks().count();
                    let mut b8 = Bump::<8>::with_min_align();
                    b8.reset();
                    seen += b8.chunk_capacity();
                }
                seen
            })
        })
        .collect();
    for h in handles {
        if h.join().unwrap() != 0 {
            fail("C06", "sig=C06/chunkless-reset-not-a-noop".to_string());
        }
    }
}

fn scenario_arena(seed: u64) {
    arena_on::<1>(seed);
    arena_on::<8>(seed.wrapping_add(1));
    arena_on::<16>(seed.wrapping_add(2));
    arena_on::<2>(seed.wrapping_add(3));
}

fn main() {
    let args: Vec<String> = std::env::args().collect();
    let seed: u64 = args.get(2).and_then(|s| s.parse().ok()).unwrap_or(1);
    match args.get(1).map(|s| s.as_str()) {
        Some("zst") => scenario_zst(),
        Some("threads") => scenario_threads(seed),
        Some("handover") => scenario_handover(seed),
        Some("scripts") => scenario_scripts(seed),
        Some("collections") => scenario_collections(seed),
        Some("arena") => scenario_arena(seed),
        Some("chunkless_reset") => scenario_chunkless_reset(seed),
        Some("noop") => {}
        _ => {
            eprintln!("usage: bumpmiri zst|threads|handover|scripts [seed]");
            std::process::exit(2);
        }
    }
    println!("SCENARIO-OK");
}
