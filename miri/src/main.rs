//! Miri scenarios (DESIGN §2.4): Miri is the controlled scheduler and address chooser.
//! `-Zmiri-seed=N` fixes the preemption schedule and where statics and heap blocks land; its
//! race detector reports unsynchronised conflicting accesses in the explored execution.
//!
//!   bumpmiri zst            C04: zero-sized / over-aligned requests on chunk-less arenas
//!   bumpmiri threads <s>    C20: threads each driving their own arena (script seed s)
//!   bumpmiri handover <s>   C20: idle arenas handed over between threads
//!   bumpmiri scripts <s>    C01/C03/C12: short single-threaded arena scripts (UB checks only)

use allocator_api2::alloc::Allocator;
use bumpalo::Bump;
use std::alloc::Layout;

struct Rng(u64);
impl Rng {
    fn next(&mut self) -> u64 {
        self.0 = self.0.wrapping_add(0x9E37_79B9_7F4A_7C15);
        let mut z = self.0;
        z = (z ^ (z >> 30)).wrapping_mul(0xBF58_476D_1CE4_E5B9);
        z = (z ^ (z >> 27)).wrapping_mul(0x94D0_49BB_1331_11EB);
        z ^ (z >> 31)
    }
    fn below(&mut self, n: u64) -> u64 {
        self.next() % n.max(1)
    }
}

fn fail(prop: &str, msg: String) -> ! {
    println!("VIOLATION-DETAIL property={} {}", prop, msg);
    std::process::exit(1);
}

fn zst_on<const M: usize>() {
    // several arenas so that not only the first touch of the static is observed
    for round in 0..3 {
        let b = Bump::<M>::with_min_align();
        for log in 0..=4 {
            let align = 1usize << log;
            let l = Layout::from_size_align(0, align).unwrap();
            match b.try_alloc_layout(l) {
                Ok(p) => {
                    let a = p.as_ptr() as usize;
                    if a % align != 0 || a % M != 0 || a == 0 {
                        fail(
                            "C04",
                            format!("sig=C04/misaligned-zero-sized/chunkless MIN_ALIGN {} align {} addr%16={} round {}", M, align, a % 16, round),
                        );
                    }
                }
                Err(_) => fail("C04", format!("sig=C04/zero-sized-failed/chunkless MIN_ALIGN {} align {}", M, align)),
            }
            if b.allocated_bytes() != 0 && align <= 16 && round == 0 && log == 0 {
                // a chunk-less arena may or may not allocate for this; nothing is stated
            }
        }
        let u: &mut () = b.alloc(());
        let s: &mut [u64] = b.alloc_slice_copy::<u64>(&[]);
        let t: &mut str = b.alloc_str("");
        for a in [u as *mut () as usize, s.as_ptr() as usize, t.as_ptr() as usize] {
            if a % M != 0 {
                fail("C04", format!("sig=C04/misaligned-zero-sized/chunkless typed MIN_ALIGN {} addr%16={}", M, a % 16));
            }
        }
        if s.as_ptr() as usize % 8 != 0 {
            fail("C04", "sig=C04/misaligned-zero-sized/chunkless empty u64 slice".to_string());
        }
    }
}

fn scenario_zst() {
    // bumpalo's own debug assertion may notice the misalignment first
    std::panic::set_hook(Box::new(|_| {}));
    let r = std::panic::catch_unwind(scenario_zst_inner);
    if let Err(p) = r {
        let msg = p.downcast_ref::<String>().cloned().or_else(|| p.downcast_ref::<&str>().map(|s| s.to_string())).unwrap_or_default();
        if msg.contains("aligned") {
            fail("C04", format!("sig=C04/alignment-assertion/chunkless {}", msg.replace('\n', " ")));
        }
        fail("C04", format!("sig=C04/zero-sized-request-panicked/chunkless {}", msg.replace('\n', " ")));
    }
}

fn scenario_zst_inner() {
    zst_on::<1>();
    zst_on::<2>();
    zst_on::<4>();
    zst_on::<8>();
    zst_on::<16>();
}

/// One arena driven by a seeded script; returns its observable trace (address-free).
fn drive(seed: u64, zst_first: bool, never_alloc: bool, steps: usize) -> Vec<(u8, usize, usize, u64)> {
    let mut r = Rng(seed);
    let mut b = Bump::new();
    let mut trace = Vec::new();
    let mut sum: u64 = 0;
    if zst_first {
        for log in 0..4 {
            let p = b.alloc_layout(Layout::from_size_align(0, 1 << log).unwrap());
            sum = sum.wrapping_add((p.as_ptr() as usize % (1 << log)) as u64);
            let _ = b.alloc(());
            trace.push((0, b.chunk_capacity(), b.allocated_bytes(), sum));
        }
        // zero-sized values through every other entry point that can touch the bump pointer
        // while the arena is still chunk-less
        let e1 = b.alloc_try_with(|| -> Result<std::convert::Infallible, ()> { Err(()) }).is_err();
        let e2 = b.try_alloc_try_with(|| -> Result<std::convert::Infallible, ()> { Err(()) }).is_err();
        let _ = b.alloc_try_with(|| -> Result<(), std::convert::Infallible> { Ok(()) });
        // zero-sized results whose alignment exceeds the arena's minimum alignment
        #[derive(Debug)]
        #[repr(align(16))]
        struct Z16;
        let e3 = b.alloc_try_with(|| -> Result<std::convert::Infallible, [u64; 0]> { Err([]) }).is_err();
        let e4 = b.try_alloc_try_with(|| -> Result<std::convert::Infallible, Z16> { Err(Z16) }).is_err();
        let e5 = b.alloc_try_with(|| -> Result<std::convert::Infallible, Z16> { Err(Z16) }).is_err();
        let _ = b.try_alloc_try_with(|| -> Result<[u32; 0], std::convert::Infallible> { Ok([]) });
        let _ = b.alloc_slice_try_fill_with::<[u64; 0], _, Z16>(2, |i| if i == 1 { Err(Z16) } else { Ok([]) });
        sum = sum.wrapping_add(e3 as u64 + e4 as u64 + e5 as u64);
        let _: &mut [()] = b.alloc_slice_fill_with(3, |_| ());
        let _ = b.alloc_slice_try_fill_with::<(), _, ()>(2, |i| if i == 1 { Err(()) } else { Ok(()) });
        let _: &mut [u64] = b.alloc_slice_fill_default(0);
        let _ = b.alloc_str("");
        {
            let l0 = Layout::from_size_align(0, 8).unwrap();
            if let Ok(p) = (&b).allocate(l0) {
                let p = p.cast::<u8>();
                if let Ok(q) = unsafe { (&b).shrink(p, l0, Layout::from_size_align(0, 4).unwrap()) } {
                    let q = q.cast::<u8>();
                    if let Ok(r2) = unsafe { (&b).grow(q, Layout::from_size_align(0, 4).unwrap(), Layout::from_size_align(0, 4).unwrap()) } {
                        unsafe { (&b).deallocate(r2.cast(), Layout::from_size_align(0, 4).unwrap()) };
                    }
                }
            }
        }
        // resetting (and iterating) an arena that still owns nothing must not touch shared state
        b.reset();
        let n0: usize = b.iter_allocated_chunks().count();
        b.reset();
        sum = sum.wrapping_add(e1 as u64 + e2 as u64 + n0 as u64);
        trace.push((0, b.chunk_capacity(), b.allocated_bytes(), sum));
    }
    if never_alloc {
        for _ in 0..steps {
            let _: &mut [u8] = b.alloc_slice_copy(&[]);
            let _ = b.alloc(());
            b.reset();
            trace.push((9, b.chunk_capacity(), b.allocated_bytes(), sum));
        }
        return trace;
    }
    let mut keep: Vec<(*mut u64, u64)> = Vec::new();
    for _ in 0..steps {
        let op = r.below(8) as u8;
        match op {
            0 | 1 => {
                let v = r.next();
                let p = b.alloc(v);
                keep.push((p as *mut u64, v));
            }
            2 => {
                let n = r.below(40) as usize;
                let src: Vec<u8> = (0..n).map(|i| i as u8).collect();
                let s = b.alloc_slice_copy(&src);
                sum = sum.wrapping_add(s.iter().map(|&x| x as u64).sum::<u64>());
            }
            3 => {
                let _ = b.alloc(());
                let l = Layout::from_size_align(0, 1 << r.below(5)).unwrap();
                let _ = b.alloc_layout(l);
            }
            4 => {
                let l = Layout::from_size_align(r.below(300) as usize, 1 << r.below(5)).unwrap(); // <= 16: independent of where the chunk lands
                let p = b.alloc_layout(l);
                unsafe { std::ptr::write_bytes(p.as_ptr(), 0x11, l.size()) };
            }
            5 => {
                // Allocator API on a block
                let l = Layout::from_size_align(1 + r.below(64) as usize, 8).unwrap();
                if let Ok(p) = (&b).allocate(l) {
                    let p = p.cast::<u8>();
                    unsafe { std::ptr::write_bytes(p.as_ptr(), 0x22, l.size()) };
                    let l2 = Layout::from_size_align(l.size() + r.below(64) as usize, 8).unwrap();
                    if let Ok(q) = unsafe { (&b).grow(p, l, l2) } {
                        let q = q.cast::<u8>();
                        sum = sum.wrapping_add(unsafe { *q.as_ptr() } as u64);
                        unsafe { (&b).deallocate(q, l2) };
                    }
                }
            }
            6 => {
                for (p, v) in keep.drain(..) {
                    sum = sum.wrapping_add(unsafe { *p } ^ v);
                }
                b.reset();
            }
            _ => {
                let n: usize = b.iter_allocated_chunks().map(|c| c.len()).sum();
                sum = sum.wrapping_add(n as u64);
            }
        }
        trace.push((op + 1, b.chunk_capacity(), b.allocated_bytes(), sum));
    }
    for (p, v) in keep.drain(..) {
        sum = sum.wrapping_add(unsafe { *p } ^ v);
    }
    trace.push((99, b.chunk_capacity(), b.allocated_bytes(), sum));
    trace
}

fn scenario_threads(seed: u64) {
    let mut r = Rng(seed ^ 0xABCD);
    let k = 2 + (r.below(2) as usize);
    let cfg: Vec<(u64, bool, bool, usize)> = (0..k)
        .map(|i| (seed.wrapping_mul(31).wrapping_add(i as u64), r.below(2) == 0, r.below(4) == 0, 6 + r.below(10) as usize))
        .collect();
    // solo traces first (sequentially, on this thread)
    let solo: Vec<_> = cfg.iter().map(|c| drive(c.0, c.1, c.2, c.3)).collect();
    let handles: Vec<_> = cfg
        .iter()
        .cloned()
        .map(|c| std::thread::spawn(move || drive(c.0, c.1, c.2, c.3)))
        .collect();
    for (i, h) in handles.into_iter().enumerate() {
        let t = h.join().unwrap();
        if t != solo[i] {
            fail("C20", format!("sig=C20/threaded-trace-differs-from-solo arena {}", i));
        }
    }
}

fn scenario_handover(seed: u64) {
    let mut r = Rng(seed ^ 0x4444);
    let (tx, rx) = std::sync::mpsc::channel::<Bump>();
    let consumer = std::thread::spawn(move || {
        let mut n = 0usize;
        for mut b in rx {
            // use and drop the arena on this thread
            let x = b.alloc(7u32);
            n += *x as usize;
            let _ = b.alloc(());
            b.reset();
            let s = b.alloc_str("moved");
            n += s.len();
            drop(b);
        }
        n
    });
    let mut mine = Bump::new();
    for i in 0..4 {
        let mut b = Bump::new();
        match r.below(4) {
            0 => {} // fresh, never allocated
            1 => {
                let _ = b.alloc(());
            }
            2 => {
                let v = b.alloc(i as u64);
                *v += 1;
            }
            _ => {
                let _ = b.alloc([0u8; 600]);
                b.reset();
            }
        }
        tx.send(b).unwrap();
        // the sender goes on with another arena meanwhile
        let _ = mine.alloc(());
        let _ = mine.alloc(i);
        if i == 2 {
            mine.reset();
        }
    }
    drop(tx);
    let n = consumer.join().unwrap();
    if n != 4 * (7 + 5) {
        fail("C20", format!("sig=C20/handed-over-arena-misbehaved total {}", n));
    }
}

fn scenario_scripts(seed: u64) {
    for i in 0..4 {
        let t = drive(seed.wrapping_mul(77).wrapping_add(i), i % 2 == 0, false, 14);
        let t2 = drive(seed.wrapping_mul(77).wrapping_add(i), i % 2 == 0, false, 14);
        if t != t2 {
            fail("C20", "sig=C20/same-history-different-trace".to_string());
        }
    }
}

/// C13/C14/C17 under Miri: seeded Vec / String / Box programs in one arena, mirrored on std.
/// Natively an out-of-bounds *read*, a read of uninitialised bytes or an overlapping
/// `copy_nonoverlapping` inside a chunk has no visible effect; Miri reports it.
fn scenario_collections(seed: u64) {
    use bumpalo::boxed::Box as BBox;
    use bumpalo::collections::{String as BString, Vec as BVec};
    let mut r = Rng(seed ^ 0xC011);
    let bump = Bump::new();
    let mut bv: BVec<u64> = BVec::new_in(&bump);
    let mut sv: Vec<u64> = Vec::new();
    let mut bs = BString::new_in(&bump);
    let mut ss = String::new();
    let chars = ['a', 'é', '語', '😀', 'Z'];
    for step in 0..240 {
        let x = r.next() % 1000;
        match r.below(22) {
            0..=3 => {
                bv.push(x);
                sv.push(x);
            }
            4 => {
                assert_eq!(bv.pop(), sv.pop());
            }
            5 => {
                let i = r.below(sv.len() as u64 + 1) as usize;
                bv.insert(i, x);
                sv.insert(i, x);
            }
            6 => {
                if !sv.is_empty() {
                    let i = r.below(sv.len() as u64) as usize;
                    assert_eq!(bv.remove(i), sv.remove(i));
                }
            }
            7 => {
                let n = r.below(9) as usize;
                bv.extend((0..n as u64).map(|k| k + x));
                sv.extend((0..n as u64).map(|k| k + x));
            }
            8 => {
                let a = r.below(sv.len() as u64 + 1) as usize;
                let b = a + r.below((sv.len() - a) as u64 + 1) as usize;
                let d1: Vec<u64> = bv.drain(a..b).collect();
                let d2: Vec<u64> = sv.drain(a..b).collect();
                assert_eq!(d1, d2);
            }
            9 => {
                let a = r.below(sv.len() as u64 + 1) as usize;
                let b = a + r.below((sv.len() - a) as u64 + 1) as usize;
                let n = r.below(6);
                let d1: Vec<u64> = bv.splice(a..b, (0..n).map(|k| k * 3 + x)).collect();
                let d2: Vec<u64> = sv.splice(a..b, (0..n).map(|k| k * 3 + x)).collect();
                assert_eq!(d1, d2);
            }
            10 => {
                bv.retain(|v| v % 3 != 0);
                sv.retain(|v| v % 3 != 0);
            }
            11 => {
                bv.dedup_by_key(|v| *v / 10);
                sv.dedup_by_key(|v| *v / 10);
            }
            12 => {
                let at = r.below(sv.len() as u64 + 1) as usize;
                let t1 = bv.split_off(at);
                let t2 = sv.split_off(at);
                assert_eq!(&t1[..], &t2[..]);
            }
            13 => {
                let n = r.below(12) as usize;
                bv.resize(n, x);
                sv.resize(n, x);
            }
            14 => {
                bv.shrink_to_fit();
                bv.reserve(r.below(20) as usize);
            }
            15 => {
                let c = chars[r.below(5) as usize];
                bs.push(c);
                ss.push(c);
            }
            16 => {
                assert_eq!(bs.pop(), ss.pop());
            }
            17 => {
                let mut i = r.below(ss.len() as u64 + 1) as usize;
                while !ss.is_char_boundary(i) {
                    i -= 1;
                }
                bs.insert_str(i, "xé");
                ss.insert_str(i, "xé");
            }
            18 => {
                bs.retain(|c| c != 'x');
                ss.retain(|c| c != 'x');
            }
            19 => {
                let mut a = r.below(ss.len() as u64 + 1) as usize;
                while !ss.is_char_boundary(a) {
                    a -= 1;
                }
                bs.replace_range(a.., "語!");
                ss.replace_range(a.., "語!");
            }
            20 => {
                let b1 = BBox::new_in([x; 3], &bump);
                let s1: BBox<[u64]> = b1.into();
                let back = BBox::<[u64; 3]>::try_from(s1).ok().unwrap();
                assert_eq!(*back, [x; 3]);
                let lossy = BString::from_utf8_lossy_in(&[0xF0, 0x90, (x % 256) as u8, 0x41], &bump);
                assert_eq!(lossy.as_str(), String::from_utf8_lossy(&[0xF0, 0x90, (x % 256) as u8, 0x41]));
            }
            _ => {
                let bx = bv.clone().into_boxed_slice();
                assert_eq!(&bx[..], &sv[..]);
                let _ = bump.alloc_slice_copy(&[step as u8; 5]);
            }
        }
        if bv[..] != sv[..] || bs.as_str() != ss.as_str() || bv.capacity() < bv.len() {
            fail("C13", format!("sig=C13/miri-collections-differ-from-std step {}", step));
        }
    }
}

fn main() {
    let args: Vec<String> = std::env::args().collect();
    let seed: u64 = args.get(2).and_then(|s| s.parse().ok()).unwrap_or(1);
    match args.get(1).map(|s| s.as_str()) {
        Some("zst") => scenario_zst(),
        Some("threads") => scenario_threads(seed),
        Some("handover") => scenario_handover(seed),
        Some("scripts") => scenario_scripts(seed),
        Some("collections") => scenario_collections(seed),
        Some("noop") => {}
        _ => {
            eprintln!("usage: bumpmiri zst|threads|handover|scripts [seed]");
            std::process::exit(2);
        }
    }
    println!("SCENARIO-OK");
}
