#!/usr/bin/env python3
"""Mutation self-test (DESIGN §8 'Sensitivity'): each mutant is a small, still-compiling source
edit of the kind listed under *Sensitivity* in DESIGN §5. The runner works on a scratch copy of
/repo and /verif under a directory given on the command line (never in /repo itself), applies one
mutant at a time, checks that the existing suite still passes (otherwise the mutant is
uninteresting), runs the owning properties' quick checks and records whether any of them reports
a violation.

  mutants.py <scratch-dir> [mutant-id ...]          results: <scratch-dir>/results.jsonl
"""
import json
import os
import shutil
import subprocess
import sys

L = "src/lib.rs"
V = "src/collections/vec.rs"
S = "src/collections/string.rs"
R = "src/collections/raw_vec.rs"
B = "src/boxed.rs"

# (id, properties expected to notice, file, old, new, which occurrence (0-based) or None for the only one)
MUTANTS = [
    ("fast-less-ge", ["C18", "C01"], L, "                    if aligned_size > capacity {\n                        return None;\n                    }\n\n                    ptr.wrapping_sub(aligned_size)\n                }\n                Ordering::Equal", "                    if aligned_size >= capacity {\n                        return None;\n                    }\n\n                    ptr.wrapping_sub(aligned_size)\n                }\n                Ordering::Equal", None),
    ("fast-equal-off-by-one", ["C01"], L, "let capacity = (ptr as usize) - (start as usize);\n                    if aligned_size > capacity {\n                        return None;\n                    }\n\n                    ptr.wrapping_sub(aligned_size)\n                }\n                Ordering::Greater", "let capacity = (ptr as usize) - (start as usize) + 1;\n                    if aligned_size > capacity {\n                        return None;\n                    }\n\n                    ptr.wrapping_sub(aligned_size)\n                }\n                Ordering::Greater", None),
    ("fast-greater-drop-start-test", ["C01"], L, "if aligned_ptr < start || aligned_size > capacity {", "if aligned_size > capacity {", None),
    ("fast-greater-no-rounding", ["C04"], L, "let aligned_ptr = round_mut_ptr_down_to(ptr, layout.align());\n                    let capacity", "let aligned_ptr = round_mut_ptr_down_to(ptr, MIN_ALIGN.max(layout.align() / 2));\n                    let capacity", None),
    ("fast-less-no-size-rounding", ["C04"], L, "let aligned_size = round_up_to(layout.size(), MIN_ALIGN)?;", "let aligned_size = Some(layout.size())?;", None),
    ("chunk-align-ignores-request", ["C04"], L, "            .max(requested_layout.align());", "            .max(requested_layout.align().min(64));", None),
    ("dealloc-no-last-check", ["C01", "C02", "C12"], L, "if layout.size() != 0 && self.is_last_allocation(ptr) {", "if layout.size() != 0 {", None),
    ("dealloc-no-min-align-rounding", ["C04", "C01"], L, "let ptr = round_mut_ptr_up_to_unchecked(ptr, MIN_ALIGN);", "let ptr = round_mut_ptr_up_to_unchecked(ptr, 1);", None),
    ("shrink-half-rounds-down", ["C12", "C02"], L, "&& delta >= (old_size + 1) / 2", "&& delta >= old_size / 2", None),
    ("shrink-copies-old-size", ["C12", "C01"], L, "ptr::copy_nonoverlapping(ptr.as_ptr(), new_ptr.as_ptr(), new_size);", "ptr::copy_nonoverlapping(ptr.as_ptr(), new_ptr.as_ptr(), old_size);", None),
    ("shrink-delta-ignores-min-align", ["C04"], L, "let delta = round_down_to(old_size - new_size, new_layout.align().max(MIN_ALIGN));", "let delta = round_down_to(old_size - new_size, new_layout.align());", None),
    ("grow-copy-new-size", ["C12", "C02"], L, "ptr::copy(ptr.as_ptr(), p.as_ptr(), old_size);", "ptr::copy(ptr.as_ptr(), p.as_ptr(), new_size.min(old_size + 8));", None),
    ("grow-compat-always", ["C04", "C12"], L, "let align_is_compatible = old_layout.align() >= new_layout.align();", "let align_is_compatible = true;", None),
    ("grow-zeroed-wrong-offset", ["C12"], L, "ptr.as_mut()[old_layout.size()..].fill(0);", "ptr.as_mut()[old_layout.size() + 1..].fill(0);", None),
    ("grow-fallback-copies-less", ["C12", "C02"], L, "ptr::copy_nonoverlapping(ptr.as_ptr(), new_ptr.as_ptr(), old_size);\n        Ok(new_ptr)", "ptr::copy_nonoverlapping(ptr.as_ptr(), new_ptr.as_ptr(), old_size.saturating_sub(1));\n        Ok(new_ptr)", None),
    ("reset-keeps-prev", ["C06", "C03"], L, "let prev_chunk = cur_chunk.as_ref().prev.replace(EMPTY_CHUNK.get());\n            dealloc_chunk_list(prev_chunk);", "let prev_chunk = cur_chunk.as_ref().prev.get();\n            let _ = prev_chunk;", None),
    ("reset-no-pointer-reset", ["C06"], L, "            cur_chunk.as_ref().ptr.set(cur_chunk.cast());\n", "", None),
    ("reset-clears-limit", ["C06", "C07"], L, "            cur_chunk.as_ref().ptr.set(cur_chunk.cast());\n", "            cur_chunk.as_ref().ptr.set(cur_chunk.cast());\n            self.allocation_limit.set(None);\n", None),
    ("limit-gt-instead-of-ge", ["C07"], L, "allocation_limit_left >= new_chunk_memory_details.new_size_without_footer", "allocation_limit_left + 64 >= new_chunk_memory_details.new_size_without_footer", None),
    ("limit-compares-nothing-for-big", ["C07"], L, "allocation_limit_left >= new_chunk_memory_details.new_size_without_footer", "allocation_limit_left >= new_chunk_memory_details.new_size_without_footer.min(1 << 16)", None),
    ("accounting-counts-footer", ["C08", "C07"], L, "let allocated_bytes = prev.as_ref().allocated_bytes + new_size_without_footer;", "let allocated_bytes = prev.as_ref().allocated_bytes + size;", None),
    ("accounting-forgets-prev", ["C08", "C07"], L, "let allocated_bytes = prev.as_ref().allocated_bytes + new_size_without_footer;", "let allocated_bytes = new_size_without_footer + prev.as_ref().allocated_bytes.min(8192);", None),
    ("no-doubling", ["C18"], L, "                .checked_mul(2)?\n", "                .checked_mul(1)?\n", None),
    ("halving-too-eager", ["C18"], L, "                    base_size /= 2;", "                    base_size /= 16;", None),
    ("ctor-accepts-32", ["C04"], L, "            MIN_ALIGN <= CHUNK_ALIGN,", "            MIN_ALIGN <= CHUNK_ALIGN * 2,", 0),
    ("ctor-try-accepts-non-pow2", ["C04"], L, "            MIN_ALIGN.is_power_of_two(),", "            MIN_ALIGN.is_power_of_two() || MIN_ALIGN == 12,", 1),
    ("drop-skips-oldest-chunk", ["C03"], L, "    while !footer.as_ref().is_empty() {\n        let f = footer;\n        footer = f.as_ref().prev.get();\n        dealloc(f.as_ref().data.as_ptr(), f.as_ref().layout);", "    while !footer.as_ref().is_empty() {\n        let f = footer;\n        footer = f.as_ref().prev.get();\n        if footer.as_ref().is_empty() && f.as_ref().layout.size() > 70_000 {\n            break;\n        }\n        dealloc(f.as_ref().data.as_ptr(), f.as_ref().layout);", None),
    ("chunk-iter-skips-second", ["C10"], L, "            self.footer = foot.prev.get();\n            Some((ptr as *mut u8, len))", "            self.footer = foot.prev.get();\n            if len == 0 && !self.footer.as_ref().is_empty() {\n                self.footer = self.footer.as_ref().prev.get();\n            }\n            Some((ptr as *mut u8, len))", None),
    ("try-with-rewind-ungated", ["C01", "C02", "C11"], L, "                if self.is_last_allocation(inner_result_ptr.cast()) {", "                if true {", 0),
    ("try-with-error-read-twice", ["C11"], L, "                Err(ptr::read(e as *const _))", "                Err({ let _dup: E = ptr::read(e as *const _); ptr::read(e as *const _) })", None),
    ("slice-try-fill-no-dealloc", ["C11", "C10"], L, "                        self.dealloc(base_ptr, layout);\n                        return Err(e);", "                        return Err(e);", None),
    ("fill-with-wrong-index", ["C02"], L, "                ptr::write(dst.as_ptr().add(i), f(i));\n            }\n\n            let result = slice::from_raw_parts_mut(dst.as_ptr(), len);\n            debug_assert_eq!(Layout::for_value(result), layout);\n            result", "                ptr::write(dst.as_ptr().add(i), f(if i == 5 { 4 } else { i }));\n            }\n\n            let result = slice::from_raw_parts_mut(dst.as_ptr(), len);\n            debug_assert_eq!(Layout::for_value(result), layout);\n            result", None),
    ("slow-path-sets-chunk-before-check", ["C09", "C03"], L, "        let data = alloc(layout);\n        let data = NonNull::new(data)?;", "        let data = alloc(layout);\n        let data = match NonNull::new(data) {\n            Some(d) => d,\n            None if size > 3000 => return NonNull::new(alloc(layout_from_size_align(64, 16).ok()?)).and_then(|_| None),\n            None => return None,\n        };", None),
    ("vec-insert-shifts-one-less", ["C13", "C15"], V, "ptr::copy(p, p.offset(1), len - index);", "ptr::copy(p, p.offset(1), (len - index).saturating_sub((index == 3) as usize));", None),
    ("vec-remove-shift-short", ["C13", "C15"], V, "ptr::copy(ptr.offset(1), ptr, len - index - 1);", "ptr::copy(ptr.offset(1), ptr, (len - index - 1).min(6));", None),
    ("vec-truncate-drops-one-more", ["C15", "C13"], V, "            for _ in len..current_len {\n                local_len.decrement_len(1);", "            for _ in len.saturating_sub((len == 5) as usize)..current_len {\n                local_len.decrement_len(1);", None),
    ("vec-drain-tail-short", ["C13", "C15"], V, "                    ptr::copy(src, dst, self.tail_len);\n                }\n                source_vec.set_len(start + self.tail_len);", "                    ptr::copy(src, dst, self.tail_len);\n                }\n                source_vec.set_len(start + self.tail_len - (self.tail_len > 7) as usize);", None),
    ("vec-split-off-copies-one-less", ["C13", "C15"], V, "ptr::copy_nonoverlapping(self.as_ptr().add(at), other.as_mut_ptr(), other.len());", "ptr::copy_nonoverlapping(self.as_ptr().add(at), other.as_mut_ptr(), other.len() - (other.len() > 4) as usize);", None),
    ("rawvec-no-doubling", ["C18"], R, "        let double_cap = self.cap * 2;", "        let double_cap = self.cap + 1;", None),
    ("string-remove-shifts-wrong", ["C14"], S, "            self.vec.set_len(len - (next - idx));\n        }\n        ch", "            self.vec.set_len(len - (next - idx) + (next - idx == 4) as usize);\n        }\n        ch", None),
    ("string-insert-no-boundary-check", ["C14"], S, "        assert!(self.is_char_boundary(idx));\n        let mut bits = [0; 4];", "        let mut bits = [0; 4];", None),
    ("box-downcast-no-check", ["C17"], B, "        if self.is::<T>() {\n            unsafe {\n                let raw: *mut dyn Any = Box::into_raw(self);", "        if self.is::<T>() || core::mem::size_of::<T>() == 1 {\n            unsafe {\n                let raw: *mut dyn Any = Box::into_raw(self);", None),
    ("box-into-inner-drops-too", ["C17", "C15"], B, "        unsafe { core::ptr::read(Box::into_raw(b)) }", "        unsafe {\n            let v = core::ptr::read(&*b as *const T);\n            if core::mem::size_of::<T>() == 40 {\n                drop(b);\n            } else {\n                core::mem::forget(b);\n            }\n            v\n        }", None),
    ("setlenondrop-increment-early", ["C16"], V, "                ptr::write(ptr, value.next());\n                ptr = ptr.offset(1);\n                // Increment the length in every step in case next() panics\n                local_len.increment_len(1);", "                local_len.increment_len(1);\n                ptr::write(ptr, value.next());\n                ptr = ptr.offset(1);", None),
]


def sh(cmd, cwd=None, env=None, timeout=3600):
    return subprocess.run(cmd, cwd=cwd, env=env, stdout=subprocess.PIPE, stderr=subprocess.STDOUT, text=True, timeout=timeout)


def main():
    scratch = os.path.abspath(sys.argv[1])
    only = set(sys.argv[2:])
    repo = os.path.join(scratch, "repo")
    verif = os.path.join(scratch, "verif")
    if not os.path.exists(repo):
        os.makedirs(scratch, exist_ok=True)
        sh(["git", "clone", "-q", "/repo", repo])
        shutil.copytree("/verif", verif, ignore=shutil.ignore_patterns("target", "work", "replays", ".git", "evidence"))
        for f in ("sim/Cargo.toml", "miri/Cargo.toml"):
            p = os.path.join(verif, f)
            s = open(p).read().replace('path = "/repo"', 'path = "%s"' % repo)
            open(p, "w").write(s)
    env = dict(os.environ)
    env["CARGO_NET_OFFLINE"] = "true"
    env["VERIF_WORKERS"] = env.get("VERIF_WORKERS", "8")
    env["VERIF_MINIMISE"] = "0"  # only the verdict matters here
    out = open(os.path.join(scratch, "results.jsonl"), "a")
    for (mid, props, f, old, new, nth) in MUTANTS:
        if only and mid not in only:
            continue
        sh(["git", "checkout", "-q", "--", "."], cwd=repo)
        p = os.path.join(repo, f)
        s = open(p).read()
        if old not in s:
            rec = {"mutant": mid, "status": "not-applicable (source text not found)"}
            out.write(json.dumps(rec) + "\n"); out.flush(); print(rec, flush=True)
            continue
        if nth is None:
            if s.count(old) != 1:
                s2 = s.replace(old, new, 1)
            else:
                s2 = s.replace(old, new)
        else:
            parts = s.split(old)
            s2 = old.join(parts[: nth + 1]) + new + old.join(parts[nth + 1:])
        open(p, "w").write(s2)
        e2 = dict(env); e2["RUSTFLAGS"] = "--cap-lints=allow"
        b = sh(["cargo", "build", "--offline", "-q", "--features", "collections,boxed,allocator-api2,std"], cwd=repo, env=e2)
        if b.returncode != 0:
            rec = {"mutant": mid, "status": "does-not-compile", "tail": b.stdout[-300:]}
            out.write(json.dumps(rec) + "\n"); out.flush(); print(rec, flush=True)
            continue
        t = sh(["cargo", "test", "--workspace", "--no-fail-fast", "--offline"], cwd=repo, env=env)
        suite_ok = t.returncode == 0
        hits = {}
        for prop in props:
            r = sh([os.path.join(verif, "check"), "run", prop, "--tier", "quick"], cwd=verif, env=env, timeout=3000)
            sigs = [l.split("signature:")[1].strip() for l in r.stdout.splitlines() if "signature:" in l]
            hits[prop] = {"exit": r.returncode, "signatures": sigs[:6]}
        caught = any(h["exit"] == 1 for h in hits.values())
        rec = {"mutant": mid, "file": f, "existing_suite_passes": suite_ok, "caught": caught, "checks": hits}
        out.write(json.dumps(rec) + "\n"); out.flush(); print(json.dumps(rec)[:400], flush=True)
    sh(["git", "checkout", "-q", "--", "."], cwd=repo)


if __name__ == "__main__":
    main()
