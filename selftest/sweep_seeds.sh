#!/bin/bash
# quick tier of every property under other VERIF_SEED values: the unchanged tree must stay quiet
sed -i "s#path = \"/repo\"#path = \"$VP_RUN_REPO\"#" sim/Cargo.toml miri/Cargo.toml
export VERIF_WORKERS=6
./check build || exit 2
for seed in 1 777 31337 4242424242 99; do
for p in C01 C02 C03 C04 C06 C07 C08 C09 C10 C11 C12 C13 C14 C15 C16 C17 C18 C19 C20; do
  VERIF_SEED=$seed ./check run $p --tier quick > out_${p}_$seed.txt 2>&1; rc=$?
  echo "seed=$seed $p rc=$rc $(grep -E '^VIOLATION|HARNESS' out_${p}_$seed.txt | head -3)"
done; done
