#!/bin/bash
# run in a vp snapshot: point the harness at the repo snapshot, then run every thorough tier
sed -i "s#path = \"/repo\"#path = \"$VP_RUN_REPO\"#" sim/Cargo.toml miri/Cargo.toml
export VERIF_WORKERS=8
./check build || exit 2
for p in C01 C02 C03 C04 C06 C07 C08 C09 C10 C11 C12 C13 C14 C15 C16 C17 C18 C19 C20; do
  s=$(date +%s)
  ./check run $p --tier thorough > out_$p.txt 2>&1; rc=$?
  echo "$p thorough rc=$rc wall=$(( $(date +%s) - s ))s  $(grep -cE '^VIOLATION' out_$p.txt) violations"
  grep -E "^VIOLATION|HARNESS|KNOWN" out_$p.txt | head -5
done
