#!/bin/bash
# Determinism self-test (DESIGN §8): every run index must produce the same fingerprint
# (op kinds, outcomes, chunk-relative placement, accounting, allocator traffic) when executed
# twice in separate processes and when the index range is split across a different number of
# worker processes. Usage: selftest_determinism.sh [N indices per property] [props...]
N=${1:-2000}; shift
PROPS=${@:-C01 C02 C03 C04 C06 C07 C08 C09 C10 C11 C12 C13 C14 C15 C16 C17 C18 C19 C20}
/verif/check build >/dev/null || exit 2   # never test stale binaries
cd /verif/sim
fail=0
for prof in debug release; do
  for p in $PROPS; do
    a=$(./target/$prof/bumpsim run --prop $p --seed 7 --from 0 --to $N --fp-log | grep '^FP ' | sort -k2 -n | md5sum)
    b=$(./target/$prof/bumpsim run --prop $p --seed 7 --from 0 --to $N --fp-log | grep '^FP ' | sort -k2 -n | md5sum)
    # split over 4 processes, in reverse order of ranges
    c=$( (for w in 3 2 1 0; do ./target/$prof/bumpsim run --prop $p --seed 7 --from $((w*N/4)) --to $(((w+1)*N/4)) --fp-log | grep '^FP '; done) | sort -k2 -n | md5sum)
    if [ "$a" != "$b" ] || [ "$a" != "$c" ]; then echo "NONDETERMINISTIC $p $prof: $a $b $c"; fail=1; else echo "ok $p $prof $a"; fi
  done
done
exit $fail
