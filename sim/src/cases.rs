//! A `Case` is one self-contained, replayable execution: explicit op lists, configuration,
//! placement and fault plan. Replay files are serialized `CaseFile`s.

use crate::common::*;
use crate::simalloc;
use crate::track;
use crate::w1::{self, ExecOpts, Out, RunReport, TraceItem};
use crate::w1_ops::W1Script;
use serde::{Deserialize, Serialize};

#[derive(Clone, Debug, PartialEq, Serialize, Deserialize)]
pub enum Case {
    /// one arena history, all arena oracles
    W1(W1Script),
    /// C09: the history with `try_x` and again with `x`; outcomes must correspond
    W1TwinInfallible(W1Script),
    /// C07: the history with and without set_allocation_limit(Some(x)); set_allocation_limit(None) pairs
    W1TwinPulse(W1Script),
    /// C07: the history on an arena without a limit and on one whose limit is usize::MAX
    W1TwinNoLimit(W1Script),
    /// collections clients in one arena, mirrored by std collections
    W2(crate::w2_ops::W2Script),
    /// a callback-taking operation with an injected panic at a chosen callback invocation
    W3(crate::w3::W3Script),
    /// one boundary-size request at one entry point (C19)
    W6(crate::w67::W6Script),
    /// capacity / growth workload (C18)
    W7(crate::w67::W7Script),
    /// several arenas, each with its own history, run solo and then interleaved by a recorded
    /// schedule; every arena's trace must be the same both ways (C20)
    W4 { scripts: Vec<W1Script>, schedule: Vec<u8> },
    /// constructor table: unsupported minimum alignments are refused with a panic (C04)
    W8,
    /// one chunk of the exhaustive decoder differential (C14, enumeration - not simulation)
    W5(crate::w5::W5Script),
}

#[derive(Clone, Debug, Serialize, Deserialize)]
pub struct CaseFile {
    pub property: String,
    /// signature the case is expected to reproduce (empty for samples)
    pub signature: String,
    /// "dbg", "rel" or "any": build profile in which it was observed
    pub profile: String,
    pub what_fails: String,
    pub case: Case,
    /// provenance: VERIF_SEED, run index and derived run seed of the run that found it
    #[serde(default)]
    pub found_by: serde_json::Value,
}

pub struct CaseResult {
    pub violations: Vec<Violation>,
    /// non-fatal violations of other properties seen on the way
    pub side: Vec<Violation>,
    pub stats: Stats,
    pub fp: u64,
    pub requests: u32,
    pub request_sizes: Vec<usize>,
}

pub struct Ctx {
    pub k: usize,
    /// property whose check is running (None: report every violation, stop at the first)
    pub focus: Option<&'static str>,
}

pub fn focus_of(prop: &str) -> Option<&'static str> {
    const ALL: [&str; 20] = [
        "C01", "C02", "C03", "C04", "C05", "C06", "C07", "C08", "C09", "C10", "C11", "C12", "C13", "C14", "C15", "C16", "C17", "C18", "C19", "C20",
    ];
    ALL.iter().copied().find(|p| *p == prop)
}

pub fn exec_w1(script: &W1Script, opts: ExecOpts, k: usize) -> RunReport {
    simalloc::begin_run(opts.placement.unwrap_or(script.placement));
    simalloc::set_plan(opts.arena, script.plan);
    track::reset_ledger();
    let rep = match script.min_align {
        1 => w1::Exec::<1>::new(script, opts, k).run(),
        2 => w1::Exec::<2>::new(script, opts, k).run(),
        4 => w1::Exec::<4>::new(script, opts, k).run(),
        8 => w1::Exec::<8>::new(script, opts, k).run(),
        _ => w1::Exec::<16>::new(script, opts, k).run(),
    };
    let static_ok = sentinel_intact();
    let end = simalloc::end_run();
    let mut rep = rep;
    if rep.violations.is_empty() && !static_ok {
        rep.violations.push(Violation {
            prop: "C20".into(),
            sig: "C20/shared-static-changed".into(),
            op: "end".into(),
            at: script.ops.len(),
            detail: "a fresh arena no longer looks fresh after this history (state leaked through the shared static)".into(),
        });
    }
    if rep.violations.is_empty() && end.write_after_free > 0 {
        rep.violations.push(Violation {
            prop: "C03".into(),
            sig: "C03/write-after-free".into(),
            op: "end".into(),
            at: script.ops.len(),
            detail: format!("{} freed chunks were written to after being returned", end.write_after_free),
        });
    }
    if rep.violations.is_empty() && end.redzone > 0 {
        rep.violations.push(Violation {
            prop: "C01".into(),
            sig: "C01/write-outside-chunk".into(),
            op: "end".into(),
            at: script.ops.len(),
            detail: String::new(),
        });
    }
    rep
}

fn same_step(a: &TraceItem, b: &TraceItem) -> bool {
    a.out == b.out && a.place == b.place && a.reqs == b.reqs && a.ab == b.ab && a.cc == b.cc
}

fn out_name(o: Out) -> &'static str {
    match o {
        Out::Ok => "ok",
        Out::AllocFail => "allocfail",
        Out::InitErr => "initerr",
        Out::Panic => "panic",
        Out::Skipped => "skipped",
    }
}

fn compare_traces(prop: &str, oracle: &str, a: &RunReport, b: &RunReport, out: &mut Vec<Violation>) {
    let n = a.trace.len().min(b.trace.len());
    for i in 0..n {
        if !same_step(&a.trace[i], &b.trace[i]) {
            let (x, y) = (&a.trace[i], &b.trace[i]);
            let facts = if x.out != y.out {
                format!("{}-vs-{}", out_name(x.out), out_name(y.out))
            } else if x.reqs != y.reqs {
                "allocator-requests".to_string()
            } else if x.place != y.place {
                "placement".to_string()
            } else {
                "accounting".to_string()
            };
            out.push(Violation {
                prop: prop.into(),
                sig: format!("{}/{}/{}", prop, oracle, facts),
                op: x.kind.to_string(),
                at: i.saturating_sub(1),
                detail: format!("step {}: {:?} vs {:?}", i, x, y),
            });
            return;
        }
    }
    if a.trace.len() != b.trace.len() {
        out.push(Violation {
            prop: prop.into(),
            sig: format!("{}/{}/length", prop, oracle),
            op: "end".into(),
            at: n,
            detail: format!("{} vs {} steps", a.trace.len(), b.trace.len()),
        });
    }
}

/// when set, every case is appended to this file before it is executed (crash attribution)
pub static TRACE: std::sync::Mutex<Option<std::fs::File>> = std::sync::Mutex::new(None);

fn boxed_exec<'s>(script: &'s W1Script, opts: ExecOpts, k: usize) -> Box<dyn crate::w1_arena::Driver + 's> {
    match script.min_align {
        1 => Box::new(w1::Exec::<1>::new(script, opts, k)),
        2 => Box::new(w1::Exec::<2>::new(script, opts, k)),
        4 => Box::new(w1::Exec::<4>::new(script, opts, k)),
        8 => Box::new(w1::Exec::<8>::new(script, opts, k)),
        _ => Box::new(w1::Exec::<16>::new(script, opts, k)),
    }
}

/// the static sentinel every chunk-less arena points at must be as it was at start-up
pub fn sentinel_intact() -> bool {
    let r = simalloc::arena_call(7, || {
        let b = bumpalo::Bump::new();
        let ok = b.chunk_capacity() == 0 && b.allocated_bytes() == 0;
        let z = b.alloc_layout(std::alloc::Layout::from_size_align(0, 1).unwrap()).as_ptr() as usize;
        ok && z == simalloc::sentinel() && b.chunk_capacity() == 0
    });
    let mut ev = Vec::new();
    simalloc::take_events(&mut ev);
    matches!(r, Ok(true))
}

fn run_w4(scripts: &[W1Script], schedule: &[u8], ctx: &Ctx) -> CaseResult {
    let mut viol: Vec<Violation> = Vec::new();
    let mut stats = Stats::default();
    // solo
    let mut solo = Vec::new();
    for (i, s) in scripts.iter().enumerate() {
        let opts = ExecOpts { arena: i as u32, focus: ctx.focus, placement: Some(scripts[0].placement), ..Default::default() };
        let rep = exec_w1(s, opts, ctx.k);
        if !rep.violations.is_empty() {
            return CaseResult { violations: rep.violations, side: rep.side, stats: rep.stats, fp: rep.fp, requests: 0, request_sizes: Vec::new() };
        }
        stats.merge(&rep.stats);
        solo.push(rep);
    }
    // interleaved
    simalloc::begin_run(scripts[0].placement);
    track::reset_ledger();
    let mut drivers: Vec<Option<Box<dyn crate::w1_arena::Driver + '_>>> = Vec::new();
    for (i, s) in scripts.iter().enumerate() {
        simalloc::set_plan(i as u32, s.plan);
        let opts = ExecOpts { arena: i as u32, focus: ctx.focus, ..Default::default() };
        drivers.push(Some(boxed_exec(s, opts, ctx.k)));
    }
    let n = drivers.len();
    let mut started = vec![false; n];
    let mut live = vec![true; n];
    let mut inter: Vec<Option<w1::RunReport>> = (0..n).map(|_| None).collect();
    let mut fp = Fp::new();
    let mut order = schedule.iter().map(|&x| x as usize % n).collect::<Vec<_>>();
    // make sure everything finishes: after the recorded schedule, round-robin
    for _ in 0..2048 {
        order.extend(0..n);
    }
    for a in order {
        if !live[a] {
            continue;
        }
        fp.mix(a as u64 + 1);
        let d = drivers[a].as_mut().unwrap();
        let more = if !started[a] {
            started[a] = true;
            d.d_begin();
            true
        } else {
            d.d_step()
        };
        if !more {
            live[a] = false;
            let d = drivers[a].take().unwrap();
            inter[a] = Some(d.d_finish());
        }
        if live.iter().all(|l| !l) {
            break;
        }
    }
    for a in 0..n {
        if let Some(d) = drivers[a].take() {
            inter[a] = Some(d.d_finish());
        }
    }
    let ok_static = sentinel_intact();
    simalloc::end_run();
    stats.hit("w4_interleaved_run");
    for a in 0..n {
        let rep = inter[a].take().unwrap();
        stats.merge(&rep.stats);
        if !rep.violations.is_empty() {
            // a violation that shows up only when other arenas are around is an isolation failure
            for v in &rep.violations {
                viol.push(v.clone());
            }
            viol.push(Violation {
                prop: "C20".into(),
                sig: "C20/violation-only-when-interleaved".into(),
                op: rep.violations[0].op.clone(),
                at: rep.violations[0].at,
                detail: format!("arena {} alone is clean; interleaved: {}", a, rep.violations[0].sig),
            });
            continue;
        }
        let before = viol.len();
        compare_traces("C20", "interleaved-trace-differs-from-solo", &solo[a], &rep, &mut viol);
        if viol.len() > before {
            let d = format!("arena {} of {}: {}", a, n, viol.last().unwrap().detail);
            viol.last_mut().unwrap().detail = d;
        }
    }
    if viol.is_empty() && !ok_static {
        viol.push(Violation {
            prop: "C20".into(),
            sig: "C20/shared-static-changed".into(),
            op: "end".into(),
            at: 0,
            detail: "a fresh arena no longer looks fresh after the run".into(),
        });
    }
    CaseResult { violations: viol, side: Vec::new(), stats, fp: fp.0 ^ solo.iter().fold(0, |a, r| a ^ r.fp), requests: 0, request_sizes: Vec::new() }
}

fn run_w8() -> CaseResult {
    use bumpalo::Bump;
    simalloc::begin_run(simalloc::Placement::Fixed(0));
    let mut viol = Vec::new();
    let mut stats = Stats::default();
    macro_rules! ctor3 {
        ($n:expr) => {{
            let a = simalloc::arena_call(0, || drop(Bump::<$n>::with_min_align())).is_err();
            let b = simalloc::arena_call(0, || drop(Bump::<$n>::with_min_align_and_capacity(100))).is_err();
            let c = simalloc::arena_call(0, || drop(Bump::<$n>::try_with_min_align_and_capacity(100))).is_err();
            let d = simalloc::arena_call(0, || drop(Bump::<$n>::try_with_min_align_and_capacity(0))).is_err();
            let e = simalloc::arena_call(0, || drop(<Bump<$n> as Default>::default())).is_err();
            [a, b, c, d, e]
        }};
    }
    let mut check = |n: usize, got: [bool; 5], want_panic: bool| {
        stats.hit("w8_constructor_checked");
        for (i, g) in got.iter().enumerate() {
            if *g != want_panic {
                let name = ["with_min_align", "with_min_align_and_capacity", "try_with_min_align_and_capacity(100)", "try_with_min_align_and_capacity(0)", "Default::default"][i];
                viol.push(Violation {
                    prop: "C04".into(),
                    sig: format!("C04/constructor-{}", if want_panic { "accepted-unsupported-min-align" } else { "refused-supported-min-align" }),
                    op: name.into(),
                    at: 0,
                    detail: format!("MIN_ALIGN = {}: {} {}", n, name, if *g { "panicked" } else { "did not panic" }),
                });
            }
        }
    };
    check(1, ctor3!(1), false);
    check(2, ctor3!(2), false);
    check(4, ctor3!(4), false);
    check(8, ctor3!(8), false);
    check(16, ctor3!(16), false);
    check(0, ctor3!(0), true);
    check(3, ctor3!(3), true);
    check(5, ctor3!(5), true);
    check(6, ctor3!(6), true);
    check(7, ctor3!(7), true);
    check(9, ctor3!(9), true);
    check(12, ctor3!(12), true);
    check(24, ctor3!(24), true);
    check(32, ctor3!(32), true);
    check(64, ctor3!(64), true);
    check(4096, ctor3!(4096), true);
    check(17, ctor3!(17), true);
    check(48, ctor3!(48), true);
    check(128, ctor3!(128), true);
    check(1 << 20, ctor3!({ 1 << 20 }), true);
    check(1 << 63, ctor3!({ 1 << 63 }), true);
    check(usize::MAX - 15, ctor3!({ usize::MAX - 15 }), true);
    check(usize::MAX, ctor3!({ usize::MAX }), true);
    let mut ev = Vec::new();
    simalloc::take_events(&mut ev);
    simalloc::end_run();
    stats.steps += 1;
    stats.hit("alloc_fast_path");
    CaseResult { violations: viol, side: Vec::new(), stats, fp: 0x8888, requests: 0, request_sizes: Vec::new() }
}

fn w2_result(rep: crate::w2::W2Report) -> CaseResult {
    CaseResult {
        violations: rep.violations,
        side: Vec::new(),
        stats: rep.stats,
        fp: rep.fp,
        requests: 0,
        request_sizes: Vec::new(),
    }
}

pub fn run_case(case: &Case, ctx: &Ctx) -> CaseResult {
    if let Ok(mut g) = TRACE.lock() {
        if let Some(f) = g.as_mut() {
            use std::io::Write;
            let _ = writeln!(f, "{}", serde_json::to_string(case).unwrap());
            let _ = f.flush();
        }
    }
    match case {
        Case::W2(s) => w2_result(crate::w2::exec_w2(s, ctx.focus)),
        Case::W4 { scripts, schedule } => run_w4(scripts, schedule, ctx),
        Case::W8 => run_w8(),
        Case::W5(s) => {
            let rep = crate::w5::exec_w5(s);
            CaseResult { violations: rep.violations, side: Vec::new(), stats: rep.stats, fp: rep.fp, requests: 0, request_sizes: Vec::new() }
        }
        Case::W6(s) => {
            let rep = crate::w67::exec_w6(s);
            CaseResult { violations: rep.violations, side: Vec::new(), stats: rep.stats, fp: rep.fp, requests: 0, request_sizes: Vec::new() }
        }
        Case::W7(s) => {
            let rep = crate::w67::exec_w7(s, ctx.k);
            CaseResult { violations: rep.violations, side: Vec::new(), stats: rep.stats, fp: rep.fp, requests: 0, request_sizes: Vec::new() }
        }
        Case::W3(s) => {
            let rep = crate::w3::exec_w3(s);
            CaseResult {
                violations: rep.violations,
                side: Vec::new(),
                stats: rep.stats,
                fp: rep.fp,
                requests: rep.callbacks as u32,
                request_sizes: Vec::new(),
            }
        }
        Case::W1(s) => {
            let rep = exec_w1(s, ExecOpts { focus: ctx.focus, ..Default::default() }, ctx.k);
            CaseResult {
                violations: rep.violations,
                side: rep.side,
                stats: rep.stats,
                fp: rep.fp,
                requests: rep.requests,
                request_sizes: rep.request_sizes,
            }
        }
        Case::W1TwinInfallible(s) => {
            let a = exec_w1(s, ExecOpts { focus: ctx.focus, ..Default::default() }, ctx.k);
            let mut viol = a.violations.clone();
            let mut stats = a.stats.clone();
            if viol.is_empty() {
                let b = exec_w1(
                    s,
                    ExecOpts {
                        infallible_twin: true,
                        focus: ctx.focus,
                        ..Default::default()
                    },
                    ctx.k,
                );
                stats.hit("twin_infallible_pair");
                if b.violations.is_empty() {
                    compare_traces("C09", "infallible-twin-differs", &a, &b, &mut viol);
                } else {
                    // the infallible run broke something the fallible run did not
                    viol.extend(b.violations.iter().cloned());
                }
                stats.merge(&b.stats);
            }
            CaseResult {
                violations: viol,
                side: a.side.clone(),
                stats,
                fp: a.fp,
                requests: a.requests,
                request_sizes: a.request_sizes,
            }
        }
        Case::W1TwinNoLimit(s) => {
            let a = exec_w1(s, ExecOpts { skip_pulses: true, focus: ctx.focus, ..Default::default() }, ctx.k);
            let mut viol = a.violations.clone();
            let mut stats = a.stats.clone();
            if viol.is_empty() {
                let b = exec_w1(s, ExecOpts { skip_pulses: true, huge_limit: true, focus: ctx.focus, ..Default::default() }, ctx.k);
                stats.hit("twin_pulse_pair");
                if b.violations.is_empty() {
                    compare_traces("C07", "no-limit-differs-from-unreachable-limit", &a, &b, &mut viol);
                } else {
                    viol.extend(b.violations.iter().cloned());
                }
                stats.merge(&b.stats);
            }
            CaseResult { violations: viol, side: a.side.clone(), stats, fp: a.fp, requests: a.requests, request_sizes: a.request_sizes }
        }
        Case::W1TwinPulse(s) => {
            let a = exec_w1(
                s,
                ExecOpts {
                    skip_pulses: true,
                    focus: ctx.focus,
                    ..Default::default()
                },
                ctx.k,
            );
            let mut viol = a.violations.clone();
            let mut stats = a.stats.clone();
            if viol.is_empty() {
                let b = exec_w1(s, ExecOpts { focus: ctx.focus, ..Default::default() }, ctx.k);
                stats.hit("twin_pulse_pair");
                if b.violations.is_empty() {
                    compare_traces("C07", "limit-set-and-removed-changed-behaviour", &a, &b, &mut viol);
                } else {
                    viol.extend(b.violations.iter().cloned());
                }
                stats.merge(&b.stats);
            }
            CaseResult {
                violations: viol,
                side: a.side.clone(),
                stats,
                fp: a.fp,
                requests: a.requests,
                request_sizes: a.request_sizes,
            }
        }
    }
}
