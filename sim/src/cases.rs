//! A `Case` is one self-contained, replayable execution: explicit op lists, configuration,
//! placement and fault plan. Replay files are serialized `CaseFile`s.

use crate::common::*;
use crate::simalloc;
use crate::track;
use crate::w1::{self, ExecOpts, Out, RunReport, TraceItem};
use crate::w1_ops::W1Script;
use serde::{Deserialize, Serialize};

#[derive(Clone, Debug, PartialEq, Serialize, Deserialize)]
pub enum Case {
    /// one arena history, all arena oracles
    W1(W1Script),
    /// C09: the history with `try_x` and again with `x`; outcomes must correspond
    W1TwinInfallible(W1Script),
    /// C07: the history with and without set_allocation_limit(Some(x)); set_allocation_limit(None) pairs
    W1TwinPulse(W1Script),
    /// collections clients in one arena, mirrored by std collections
    W2(crate::w2_ops::W2Script),
    /// a callback-taking operation with an injected panic at a chosen callback invocation
    W3(crate::w3::W3Script),
}

#[derive(Clone, Debug, Serialize, Deserialize)]
pub struct CaseFile {
    pub property: String,
    /// signature the case is expected to reproduce (empty for samples)
    pub signature: String,
    /// "dbg", "rel" or "any": build profile in which it was observed
    pub profile: String,
    pub what_fails: String,
    pub case: Case,
}

pub struct CaseResult {
    pub violations: Vec<Violation>,
    /// non-fatal violations of other properties seen on the way
    pub side: Vec<Violation>,
    pub stats: Stats,
    pub fp: u64,
    pub requests: u32,
    pub request_sizes: Vec<usize>,
}

pub struct Ctx {
    pub k: usize,
    /// property whose check is running (None: report every violation, stop at the first)
    pub focus: Option<&'static str>,
}

pub fn focus_of(prop: &str) -> Option<&'static str> {
    const ALL: [&str; 20] = [
        "C01", "C02", "C03", "C04", "C05", "C06", "C07", "C08", "C09", "C10", "C11", "C12", "C13", "C14", "C15", "C16", "C17", "C18", "C19", "C20",
    ];
    ALL.iter().copied().find(|p| *p == prop)
}

pub fn exec_w1(script: &W1Script, opts: ExecOpts, k: usize) -> RunReport {
    simalloc::begin_run(script.placement);
    simalloc::set_plan(opts.arena, script.plan);
    track::reset_ledger();
    let rep = match script.min_align {
        1 => w1::Exec::<1>::new(script, opts, k).run(),
        2 => w1::Exec::<2>::new(script, opts, k).run(),
        4 => w1::Exec::<4>::new(script, opts, k).run(),
        8 => w1::Exec::<8>::new(script, opts, k).run(),
        _ => w1::Exec::<16>::new(script, opts, k).run(),
    };
    let end = simalloc::end_run();
    let mut rep = rep;
    if rep.violations.is_empty() && end.write_after_free > 0 {
        rep.violations.push(Violation {
            prop: "C03".into(),
            sig: "C03/write-after-free".into(),
            op: "end".into(),
            at: script.ops.len(),
            detail: format!("{} freed chunks were written to after being returned", end.write_after_free),
        });
    }
    if rep.violations.is_empty() && end.redzone > 0 {
        rep.violations.push(Violation {
            prop: "C01".into(),
            sig: "C01/write-outside-chunk".into(),
            op: "end".into(),
            at: script.ops.len(),
            detail: String::new(),
        });
    }
    rep
}

fn same_step(a: &TraceItem, b: &TraceItem) -> bool {
    a.out == b.out && a.place == b.place && a.reqs == b.reqs && a.ab == b.ab && a.cc == b.cc
}

fn out_name(o: Out) -> &'static str {
    match o {
        Out::Ok => "ok",
        Out::AllocFail => "allocfail",
        Out::InitErr => "initerr",
        Out::Panic => "panic",
        Out::Skipped => "skipped",
    }
}

fn compare_traces(prop: &str, oracle: &str, a: &RunReport, b: &RunReport, out: &mut Vec<Violation>) {
    let n = a.trace.len().min(b.trace.len());
    for i in 0..n {
        if !same_step(&a.trace[i], &b.trace[i]) {
            let (x, y) = (&a.trace[i], &b.trace[i]);
            let facts = if x.out != y.out {
                format!("{}-vs-{}", out_name(x.out), out_name(y.out))
            } else if x.reqs != y.reqs {
                "allocator-requests".to_string()
            } else if x.place != y.place {
                "placement".to_string()
            } else {
                "accounting".to_string()
            };
            out.push(Violation {
                prop: prop.into(),
                sig: format!("{}/{}/{}", prop, oracle, facts),
                op: x.kind.to_string(),
                at: i.saturating_sub(1),
                detail: format!("step {}: {:?} vs {:?}", i, x, y),
            });
            return;
        }
    }
    if a.trace.len() != b.trace.len() {
        out.push(Violation {
            prop: prop.into(),
            sig: format!("{}/{}/length", prop, oracle),
            op: "end".into(),
            at: n,
            detail: format!("{} vs {} steps", a.trace.len(), b.trace.len()),
        });
    }
}

/// when set, every case is appended to this file before it is executed (crash attribution)
pub static TRACE: std::sync::Mutex<Option<std::fs::File>> = std::sync::Mutex::new(None);

fn w2_result(rep: crate::w2::W2Report) -> CaseResult {
    CaseResult {
        violations: rep.violations,
        side: Vec::new(),
        stats: rep.stats,
        fp: rep.fp,
        requests: 0,
        request_sizes: Vec::new(),
    }
}

pub fn run_case(case: &Case, ctx: &Ctx) -> CaseResult {
    if let Ok(mut g) = TRACE.lock() {
        if let Some(f) = g.as_mut() {
            use std::io::Write;
            let _ = writeln!(f, "{}", serde_json::to_string(case).unwrap());
            let _ = f.flush();
        }
    }
    match case {
        Case::W2(s) => w2_result(crate::w2::exec_w2(s)),
        Case::W3(s) => {
            let rep = crate::w3::exec_w3(s);
            CaseResult {
                violations: rep.violations,
                side: Vec::new(),
                stats: rep.stats,
                fp: rep.fp,
                requests: rep.callbacks as u32,
                request_sizes: Vec::new(),
            }
        }
        Case::W1(s) => {
            let rep = exec_w1(s, ExecOpts { focus: ctx.focus, ..Default::default() }, ctx.k);
            CaseResult {
                violations: rep.violations,
                side: rep.side,
                stats: rep.stats,
                fp: rep.fp,
                requests: rep.requests,
                request_sizes: rep.request_sizes,
            }
        }
        Case::W1TwinInfallible(s) => {
            let a = exec_w1(s, ExecOpts { focus: ctx.focus, ..Default::default() }, ctx.k);
            let mut viol = a.violations.clone();
            let mut stats = a.stats.clone();
            if viol.is_empty() {
                let b = exec_w1(
                    s,
                    ExecOpts {
                        infallible_twin: true,
                        focus: ctx.focus,
                        ..Default::default()
                    },
                    ctx.k,
                );
                stats.hit("twin_infallible_pair");
                if b.violations.is_empty() {
                    compare_traces("C09", "infallible-twin-differs", &a, &b, &mut viol);
                } else {
                    // the infallible run broke something the fallible run did not
                    viol.extend(b.violations.iter().cloned());
                }
                stats.merge(&b.stats);
            }
            CaseResult {
                violations: viol,
                side: a.side.clone(),
                stats,
                fp: a.fp,
                requests: a.requests,
                request_sizes: a.request_sizes,
            }
        }
        Case::W1TwinPulse(s) => {
            let a = exec_w1(
                s,
                ExecOpts {
                    skip_pulses: true,
                    focus: ctx.focus,
                    ..Default::default()
                },
                ctx.k,
            );
            let mut viol = a.violations.clone();
            let mut stats = a.stats.clone();
            if viol.is_empty() {
                let b = exec_w1(s, ExecOpts { focus: ctx.focus, ..Default::default() }, ctx.k);
                stats.hit("twin_pulse_pair");
                if b.violations.is_empty() {
                    compare_traces("C07", "limit-set-and-removed-changed-behaviour", &a, &b, &mut viol);
                } else {
                    viol.extend(b.violations.iter().cloned());
                }
                stats.merge(&b.stats);
            }
            CaseResult {
                violations: viol,
                side: a.side.clone(),
                stats,
                fp: a.fp,
                requests: a.requests,
                request_sizes: a.request_sizes,
            }
        }
    }
}
