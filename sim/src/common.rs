//! Shared harness types: violations with signatures, reach-probe statistics, fingerprints.

use serde::{Deserialize, Serialize};
use std::collections::BTreeMap;

#[derive(Clone, Debug, Serialize, Deserialize, PartialEq)]
pub struct Violation {
    /// property id, e.g. "C08"
    pub prop: String,
    /// stable signature: prop/oracle[/facts] - what minimisation preserves and what the
    /// known-findings file matches on
    pub sig: String,
    /// kind of the op at which it was observed (informational)
    #[serde(default)]
    pub op: String,
    /// index of the op at which it was observed
    pub at: usize,
    /// free text for humans (never matched on)
    pub detail: String,
}

#[derive(Clone, Debug, Default)]
pub struct Stats {
    pub probes: BTreeMap<&'static str, u64>,
    pub steps: u64,
}

impl Stats {
    #[inline]
    pub fn hit(&mut self, name: &'static str) {
        *self.probes.entry(name).or_insert(0) += 1;
    }
    pub fn add(&mut self, name: &'static str, n: u64) {
        *self.probes.entry(name).or_insert(0) += n;
    }
    pub fn merge(&mut self, o: &Stats) {
        for (k, v) in &o.probes {
            *self.probes.entry(k).or_insert(0) += v;
        }
        self.steps += o.steps;
    }
}

/// rolling 64-bit fingerprint of what a run did (op kinds, outcomes, paths)
#[derive(Clone, Copy, Debug)]
pub struct Fp(pub u64);
impl Fp {
    pub fn new() -> Fp {
        Fp(0x1234_5678_9abc_def1)
    }
    #[inline]
    pub fn mix(&mut self, x: u64) {
        self.0 = crate::rng::mix2(self.0, x);
    }
}

pub fn panic_message(p: &Box<dyn std::any::Any + Send>) -> String {
    if let Some(s) = p.downcast_ref::<&'static str>() {
        s.to_string()
    } else if let Some(s) = p.downcast_ref::<String>() {
        s.clone()
    } else if p.downcast_ref::<crate::track::Injected>().is_some() {
        "<injected>".to_string()
    } else {
        "<non-string payload>".to_string()
    }
}

/// classification of a panic that came out of a bumpalo call
#[derive(Clone, Copy, Debug, PartialEq, Eq)]
pub enum PanicClass {
    /// the documented out-of-memory / size-overflow / capacity-overflow panics
    Oom,
    Injected,
    /// anything else: an internal assertion or arithmetic panic inside bumpalo or std
    Other,
}

pub fn classify_panic(msg: &str) -> PanicClass {
    if msg == "<injected>" {
        PanicClass::Injected
    } else if msg.contains("out of memory")
        || msg.contains("requested allocation size overflowed")
        || msg.contains("capacity overflow")
        || msg.contains("encountered allocation error")
    {
        PanicClass::Oom
    } else {
        PanicClass::Other
    }
}

pub fn pat(seed: u32, k: usize) -> u8 {
    let x = (seed as u64)
        .wrapping_mul(0x9E37_79B9)
        .wrapping_add((k as u64).wrapping_mul(0x85EB_CA6B));
    ((x >> 7) ^ (x >> 19) ^ x) as u8 | 1
}

/// short, address-free key of a panic message (to tell different assertions apart)
pub fn msg_slug(msg: &str) -> String {
    let mut out = String::new();
    let mut last_dash = true;
    for w in msg.split(|c: char| c.is_whitespace() || c == '`' || c == ':' || c == ',') {
        // drop addresses, numbers and punctuation-laden tokens
        if w.len() < 3 || !w.chars().all(|c| c.is_ascii_alphabetic() || c == '_') {
            continue;
        }
        if !last_dash {
            out.push('-');
        }
        out.push_str(&w.to_ascii_lowercase());
        last_dash = false;
        if out.len() > 48 {
            break;
        }
    }
    out
}
