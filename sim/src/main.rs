mod cases;
mod common;
mod minimize;
mod props;
mod rng;
mod simalloc;
mod track;
mod w1;
mod w1_alloc;
mod w1_arena;
mod w1_gen;
mod w1_ops;
mod w2;
mod w2_box;
mod w2_gen;
mod w2_ops;
mod w2_str;
mod w2_vec;
mod w3;
mod w5;
mod w67;

#[global_allocator]
static SIM: simalloc::SimAlloc = simalloc::SimAlloc;

use cases::*;
use common::*;
use serde_json::json;
use std::collections::{BTreeMap, BTreeSet};
use std::io::Write;

fn arg<'a>(args: &'a [String], name: &str) -> Option<&'a str> {
    args.iter().position(|a| a == name).and_then(|i| args.get(i + 1)).map(|s| s.as_str())
}

fn profile_name() -> &'static str {
    if cfg!(debug_assertions) {
        "dbg"
    } else {
        "rel"
    }
}

fn run_seed(verif_seed: u64, prop: &str, index: u64) -> u64 {
    rng::splitmix64(verif_seed ^ rng::fnv(prop) ^ rng::fnv(profile_name())).wrapping_add(rng::splitmix64(index))
}

fn cmd_run(args: &[String]) -> i32 {
    let prop = arg(args, "--prop").expect("--prop");
    let seed: u64 = arg(args, "--seed").and_then(|s| s.parse().ok()).unwrap_or(1);
    let from: u64 = arg(args, "--from").and_then(|s| s.parse().ok()).unwrap_or(0);
    let to: u64 = arg(args, "--to").and_then(|s| s.parse().ok()).unwrap_or(100);
    let thorough = arg(args, "--tier") == Some("thorough");
    let max_samples: usize = arg(args, "--samples").and_then(|s| s.parse().ok()).unwrap_or(2);
    if let Some(p) = arg(args, "--trace-cases") {
        *cases::TRACE.lock().unwrap() = Some(std::fs::File::create(p).expect("trace file"));
    }
    let ctx = Ctx { k: w1::measure_consts().k, focus: focus_of(prop) };
    let out = std::io::stdout();
    let mut stats = Stats::default();
    let mut fps: BTreeSet<u64> = BTreeSet::new();
    let mut evaluations: u64 = 0;
    let mut foreign: BTreeMap<String, u64> = BTreeMap::new();
    let mut seen_sigs: BTreeSet<String> = BTreeSet::new();
    let mut samples: Vec<serde_json::Value> = Vec::new();
    let mut n_viol: u64 = 0;
    let mut slowest: (u64, u64) = (0, 0);
    let fp_log = args.iter().any(|a| a == "--fp-log");
    let mut run_fp: u64 = 0;
    let (p0, e0, _) = simalloc::fired_totals();
    for idx in from..to {
        {
            let mut o = out.lock();
            let _ = writeln!(o, "BEGIN {}", idx);
            let _ = o.flush();
        }
        let rs = run_seed(seed, prop, idx);
        let t_run = std::time::Instant::now();
        let mut sink = |c: &Case, res: CaseResult| {
            evaluations += 1;
            stats.merge(&res.stats);
            run_fp = rng::mix2(run_fp, res.fp ^ res.violations.len() as u64 ^ ((res.stats.steps) << 32));
            let mine: Vec<&Violation> = res.violations.iter().filter(|v| v.prop == prop).collect();
            if !mine.is_empty() {
                n_viol += 1;
                let v = mine[0];
                if seen_sigs.insert(v.sig.clone()) {
                    let line = json!({"t": "viol", "run": idx, "run_seed": rs, "sig": v.sig, "prop": v.prop, "at": v.at, "op": v.op,
                        "detail": v.detail, "profile": profile_name(), "case": c});
                    let mut o = out.lock();
                    let _ = writeln!(o, "{}", line);
                } else {
                    let line = json!({"t": "viol_dup", "run": idx, "sig": v.sig});
                    let mut o = out.lock();
                    let _ = writeln!(o, "{}", line);
                }
            } else if let Some(v) = res.violations.first() {
                *foreign.entry(v.sig.clone()).or_insert(0) += 1;
                for s in &res.side {
                    *foreign.entry(s.sig.clone()).or_insert(0) += 1;
                }
                if v.prop == "HARNESS" {
                    let line = json!({"t": "harness", "run": idx, "sig": v.sig, "detail": v.detail, "case": c});
                    let mut o = out.lock();
                    let _ = writeln!(o, "{}", line);
                }
            } else {
                for s in &res.side {
                    *foreign.entry(s.sig.clone()).or_insert(0) += 1;
                }
            }
            if res.violations.is_empty() && props::nontrivial(prop, &res.stats) {
                fps.insert(res.fp);
                if samples.len() < max_samples {
                    samples.push(json!({"run": idx, "case": c}));
                }
            }
        };
        if prop == "C14" && idx % 32 == 0 && idx / 32 < 3 * props::W5_CHUNKS as u64 {
            // the decoder clause: exhaustive enumeration, cut into chunks addressed by run index
            let j = (idx / 32) as u32;
            let c = Case::W5(w5::W5Script { space: (j / props::W5_CHUNKS) as u8, chunk: j % props::W5_CHUNKS, of: props::W5_CHUNKS });
            let res = run_case(&c, &ctx);
            sink(&c, res);
        }
        props::run_index(prop, rs, thorough, &ctx, &mut sink);
        if fp_log {
            let mut o = out.lock();
            let _ = writeln!(o, "FP {} {:016x}", idx, run_fp);
        }
        run_fp = 0;
        let dt = t_run.elapsed().as_millis() as u64;
        if dt > slowest.0 {
            slowest = (dt, idx);
        }
        {
            let mut o = out.lock();
            let _ = writeln!(o, "END {}", idx);
        }
    }
    let (p1, e1, _) = simalloc::fired_totals();
    let probes: BTreeMap<String, u64> = stats.probes.iter().map(|(k, v)| (k.to_string(), *v)).collect();
    let fpv: Vec<String> = fps.iter().map(|x| format!("{:016x}", x)).collect();
    let line = json!({"t": "summary", "prop": prop, "profile": profile_name(), "from": from, "to": to,
        "evaluations": evaluations, "violating_cases": n_viol, "steps": stats.steps, "probes": probes,
        "faults_fired": {"allocator_refusal_by_plan": p1 - p0, "allocator_refusal_exhaustion": e1 - e0},
        "foreign": foreign, "slowest_ms": slowest.0, "slowest_run": slowest.1, "fps": fpv, "samples": samples, "k": ctx.k, "sentinel_mod_16": simalloc::sentinel() % 16});
    let mut o = out.lock();
    let _ = writeln!(o, "{}", line);
    0
}

fn load_case(path: &str) -> CaseFile {
    let s = std::fs::read_to_string(path).expect("read case file");
    serde_json::from_str(&s).expect("parse case file")
}

fn cmd_exec(args: &[String]) -> i32 {
    let cf = load_case(&args[0]);
    let ctx = Ctx { k: w1::measure_consts().k, focus: focus_of(&cf.property) };
    let res = run_case(&cf.case, &ctx);
    let sigs: Vec<&str> = res.violations.iter().map(|v| v.sig.as_str()).collect();
    println!("{}", json!({"t": "exec", "profile": profile_name(), "violations": res.violations, "sigs": sigs}));
    if res.violations.is_empty() {
        0
    } else {
        1
    }
}

fn cmd_minimize(args: &[String]) -> i32 {
    let cf = load_case(&args[0]);
    let out = arg(args, "--out").expect("--out");
    if let Some(d) = arg(args, "--tmp") {
        *minimize::ISO_DIR.lock().unwrap() = Some(d.to_string());
    }
    let ctx = Ctx { k: w1::measure_consts().k, focus: focus_of(&cf.property) };
    let min = minimize::minimize(&cf.case, &cf.signature, &ctx);
    let found_by = arg(args, "--found-by").and_then(|s| serde_json::from_str(s).ok()).unwrap_or(cf.found_by.clone());
    let cf2 = CaseFile { case: min, found_by, ..cf };
    std::fs::write(out, serde_json::to_string_pretty(&cf2).unwrap()).expect("write");
    0
}

fn main() {
    std::panic::set_hook(Box::new(|info| {
        simalloc::note_panic();
        if !simalloc::inside_arena_call() {
            // a panic of the harness itself: never silent
            let _g = simalloc::harness_scope();
            eprintln!("HARNESS-PANIC {}", info);
        }
    }));
    let args: Vec<String> = std::env::args().skip(1).collect();
    let code = match args.first().map(|s| s.as_str()) {
        Some("run") => cmd_run(&args[1..]),
        Some("exec") => cmd_exec(&args[1..]),
        Some("minimize") => cmd_minimize(&args[1..]),
        Some("consts") => {
            let c = w1::measure_consts();
            println!("{}", json!({"k": c.k, "sentinel_mod_16": simalloc::sentinel() % 16, "profile": profile_name()}));
            0
        }
        _ => {
            eprintln!("usage: bumpsim run|exec|minimize|consts ...");
            2
        }
    };
    std::process::exit(code);
}
