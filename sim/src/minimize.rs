//! In-process minimiser: delta-debug op lists, then shrink every numeric/boolean leaf of the
//! serialized case, accepting a candidate only if the same signature recurs (DESIGN §2.7).

use crate::cases::*;
use crate::simalloc::{Placement, Plan};
use crate::w1_ops::*;
use serde_json::Value;

fn valid(case: &Case) -> bool {
    match script_of(case) {
        Some(s) => {
            let m = s.min_align;
            m.is_power_of_two() && m <= 16 && s.uniform.map(|a| a.is_power_of_two() && a >= m && a <= 16).unwrap_or(true)
        }
        None => true,
    }
}

static ISO_BUDGET_MS: std::sync::atomic::AtomicU64 = std::sync::atomic::AtomicU64::new(240_000);
pub static ISO_DIR: std::sync::Mutex<Option<String>> = std::sync::Mutex::new(None);

/// Crash and hang verdicts cannot be re-evaluated in this process: run the candidate in a
/// child (`bumpsim exec`) and look at how it ends. Bounded by a wall-clock budget.
fn reproduces_isolated(case: &Case, sig: &str) -> bool {
    use std::sync::atomic::Ordering;
    let hang = sig.ends_with("worker-hang");
    if ISO_BUDGET_MS.load(Ordering::Relaxed) == 0 {
        return false;
    }
    let dir = ISO_DIR.lock().unwrap().clone().unwrap_or_else(|| ".".to_string());
    let path = format!("{}/min-candidate-{}.json", dir, std::process::id());
    let prop = sig.split('/').next().unwrap_or("C01").to_string();
    let cf = CaseFile {
        property: prop,
        signature: sig.to_string(),
        profile: "any".into(),
        what_fails: String::new(),
        case: case.clone(),
        found_by: serde_json::Value::Null,
    };
    if std::fs::write(&path, serde_json::to_string(&cf).unwrap()).is_err() {
        return false;
    }
    let exe = match std::env::current_exe() {
        Ok(e) => e,
        Err(_) => return false,
    };
    let t0 = std::time::Instant::now();
    let mut child = match std::process::Command::new(exe)
        .arg("exec")
        .arg(&path)
        .stdout(std::process::Stdio::null())
        .stderr(std::process::Stdio::null())
        .spawn()
    {
        Ok(c) => c,
        Err(_) => return false,
    };
    let limit = std::time::Duration::from_secs(if hang { 8 } else { 30 });
    let verdict = loop {
        match child.try_wait() {
            Ok(Some(st)) => {
                let code = st.code();
                break if hang { false } else { !(code == Some(0) || code == Some(1)) };
            }
            Ok(None) => {
                if t0.elapsed() > limit {
                    let _ = child.kill();
                    let _ = child.wait();
                    break hang;
                }
                std::thread::sleep(std::time::Duration::from_millis(5));
            }
            Err(_) => break false,
        }
    };
    let _ = std::fs::remove_file(&path);
    let spent = t0.elapsed().as_millis() as u64;
    let left = ISO_BUDGET_MS.load(Ordering::Relaxed);
    ISO_BUDGET_MS.store(left.saturating_sub(spent.max(1)), Ordering::Relaxed);
    verdict
}

fn reproduces(case: &Case, sig: &str, ctx: &Ctx) -> bool {
    if !valid(case) {
        return false;
    }
    if sig.ends_with("worker-abort") || sig.ends_with("worker-hang") {
        return reproduces_isolated(case, sig);
    }
    let res = run_case(case, ctx);
    res.violations.iter().any(|v| v.sig == sig)
}

fn script_of(case: &Case) -> Option<&W1Script> {
    match case {
        Case::W1(s) | Case::W1TwinInfallible(s) | Case::W1TwinPulse(s) | Case::W1TwinNoLimit(s) => Some(s),
        _ => None,
    }
}
fn with_script(case: &Case, s: W1Script) -> Case {
    match case {
        Case::W1(_) => Case::W1(s),
        Case::W1TwinInfallible(_) => Case::W1TwinInfallible(s),
        Case::W1TwinPulse(_) => Case::W1TwinPulse(s),
        Case::W1TwinNoLimit(_) => Case::W1TwinNoLimit(s),
        c => c.clone(),
    }
}

/// delta-debug the schedule of a W2 case (steps), then drop unused clients' ops
fn ddmin_w2(case: &Case, sig: &str, ctx: &Ctx) -> Case {
    let Case::W2(s0) = case else { return case.clone() };
    let mut cur = s0.clone();
    let mut chunk = cur.steps.len().max(1) / 2;
    while chunk >= 1 {
        let mut i = 0;
        while i < cur.steps.len() {
            let mut t = cur.clone();
            let end = (i + chunk).min(t.steps.len());
            t.steps.drain(i..end);
            if reproduces(&Case::W2(t.clone()), sig, ctx) {
                cur = t;
            } else {
                i += chunk;
            }
        }
        if chunk == 1 {
            break;
        }
        chunk /= 2;
    }
    for f in [0usize, 1] {
        let mut t = cur.clone();
        if f == 0 {
            t.capacity = 0;
            t.reset_at_end = false;
        } else {
            t.placement = Placement::Fixed(0);
        }
        if reproduces(&Case::W2(t.clone()), sig, ctx) {
            cur = t;
        }
    }
    Case::W2(cur)
}

fn flatten(ops: &[Op]) -> Vec<Op> {
    let mut out = Vec::new();
    for op in ops {
        match op {
            Op::HandOver { ops } => out.extend(flatten(ops)),
            o => out.push(o.clone()),
        }
    }
    out
}

fn ddmin_ops(case: &Case, sig: &str, ctx: &Ctx) -> Case {
    let mut cur = case.clone();
    let Some(s0) = script_of(&cur).cloned() else { return cur };
    // try without hand-over first
    let flat = flatten(&s0.ops);
    if flat != s0.ops {
        let mut s = s0.clone();
        s.ops = flat;
        let c = with_script(&cur, s);
        if reproduces(&c, sig, ctx) {
            cur = c;
        }
    }
    let mut chunk = script_of(&cur).unwrap().ops.len().max(1) / 2;
    while chunk >= 1 {
        let mut i = 0;
        loop {
            let s = script_of(&cur).unwrap().clone();
            if i >= s.ops.len() {
                break;
            }
            let mut t = s.clone();
            let end = (i + chunk).min(t.ops.len());
            t.ops.drain(i..end);
            let c = with_script(&cur, t);
            if reproduces(&c, sig, ctx) {
                cur = c;
            } else {
                i += chunk;
            }
        }
        if chunk == 1 {
            break;
        }
        chunk /= 2;
    }
    cur
}

fn simplify_config(case: &Case, sig: &str, ctx: &Ctx) -> Case {
    let mut cur = case.clone();
    if script_of(&cur).is_none() {
        return cur;
    }
    let try_ = |cur: &mut Case, f: &dyn Fn(&mut W1Script)| {
        let mut s = script_of(cur).unwrap().clone();
        f(&mut s);
        let c = with_script(cur, s);
        if c != *cur && reproduces(&c, sig, ctx) {
            *cur = c;
        }
    };
    try_(&mut cur, &|s| s.plan = Plan::None);
    try_(&mut cur, &|s| s.placement = Placement::Fixed(0));
    try_(&mut cur, &|s| s.placement = Placement::Fixed(1));
    try_(&mut cur, &|s| s.ctor = Ctor::New);
    try_(&mut cur, &|s| s.uniform = None);
    for m in [1usize, 2, 4, 8] {
        try_(&mut cur, &|s| {
            if s.min_align > m && s.uniform.map(|a| a >= m).unwrap_or(true) {
                s.min_align = m
            }
        });
    }
    if let Plan::Prob { .. } | Plan::List(_) | Plan::Window(..) | Plan::From(_) = script_of(&cur).unwrap().plan {
        for k in 1..=12u32 {
            let before = cur.clone();
            try_(&mut cur, &|s| s.plan = Plan::Kth(k));
            if cur != before {
                break;
            }
        }
    }
    cur
}

/// collect JSON pointer paths of all numeric and boolean leaves
fn leaves(v: &Value, path: String, out: &mut Vec<String>) {
    match v {
        Value::Number(_) | Value::Bool(_) => out.push(path),
        Value::Array(a) => {
            for (i, x) in a.iter().enumerate() {
                leaves(x, format!("{}/{}", path, i), out);
            }
        }
        Value::Object(o) => {
            for (k, x) in o {
                leaves(x, format!("{}/{}", path, k.replace('~', "~0").replace('/', "~1")), out);
            }
        }
        _ => {}
    }
}

fn shrink_leaves(case: &Case, sig: &str, ctx: &Ctx) -> Case {
    let mut cur = case.clone();
    let mut v = serde_json::to_value(&cur).unwrap();
    let mut paths = Vec::new();
    leaves(&v, String::new(), &mut paths);
    for p in paths {
        if p.ends_with("/mask") || p.ends_with("/seed") || p.contains("/placement") || p.ends_with("/min_align") || p.ends_with("/uniform") {
            continue;
        }
        let orig = match v.pointer(&p) {
            Some(x) => x.clone(),
            None => continue,
        };
        let cands: Vec<Value> = match &orig {
            Value::Bool(true) => vec![Value::Bool(false)],
            Value::Number(n) => {
                if let Some(u) = n.as_u64() {
                    let mut c = vec![0u64, 1, u / 2, u.saturating_sub(1)];
                    c.retain(|&x| x < u);
                    c.dedup();
                    c.into_iter().map(Value::from).collect()
                } else if let Some(i) = n.as_i64() {
                    let mut c = vec![0i64, i / 2, i + 1];
                    c.retain(|&x| x.abs() < i.abs());
                    c.into_iter().map(Value::from).collect()
                } else {
                    vec![]
                }
            }
            _ => vec![],
        };
        for cand in cands {
            *v.pointer_mut(&p).unwrap() = cand;
            if let Ok(c) = serde_json::from_value::<Case>(v.clone()) {
                if reproduces(&c, sig, ctx) {
                    cur = c;
                    break;
                }
            }
            *v.pointer_mut(&p).unwrap() = orig.clone();
        }
    }
    cur
}

pub fn minimize(case: &Case, sig: &str, ctx: &Ctx) -> Case {
    if !reproduces(case, sig, ctx) {
        return case.clone();
    }
    if let Case::W4 { .. } = case {
        return minimize_w4(case, sig, ctx);
    }
    if let Case::W8 | Case::W5(_) = case {
        return case.clone();
    }
    if let Case::W3(_) | Case::W6(_) | Case::W7(_) = case {
        let cur = shrink_leaves(case, sig, ctx);
        return cur;
    }
    if let Case::W2(_) = case {
        let cur = ddmin_w2(case, sig, ctx);
        let cur = shrink_leaves(&cur, sig, ctx);
        return ddmin_w2(&cur, sig, ctx);
    }
    let mut cur = ddmin_ops(case, sig, ctx);
    cur = simplify_config(&cur, sig, ctx);
    cur = ddmin_ops(&cur, sig, ctx);
    cur = shrink_leaves(&cur, sig, ctx);
    cur = ddmin_ops(&cur, sig, ctx);
    cur
}

fn minimize_w4(case: &Case, sig: &str, ctx: &Ctx) -> Case {
    let Case::W4 { scripts, schedule } = case else { return case.clone() };
    let mut scripts = scripts.clone();
    let mut schedule = schedule.clone();
    // drop whole arenas
    let mut i = 0;
    while scripts.len() > 1 && i < scripts.len() {
        let mut t = scripts.clone();
        t.remove(i);
        let c = Case::W4 { scripts: t.clone(), schedule: schedule.clone() };
        if reproduces(&c, sig, ctx) {
            scripts = t;
        } else {
            i += 1;
        }
    }
    // shrink each arena's op list
    for a in 0..scripts.len() {
        let mut chunk = scripts[a].ops.len().max(1) / 2;
        while chunk >= 1 {
            let mut i = 0;
            while i < scripts[a].ops.len() {
                let mut t = scripts.clone();
                let end = (i + chunk).min(t[a].ops.len());
                t[a].ops.drain(i..end);
                let c = Case::W4 { scripts: t.clone(), schedule: schedule.clone() };
                if reproduces(&c, sig, ctx) {
                    scripts = t;
                } else {
                    i += chunk;
                }
            }
            if chunk == 1 {
                break;
            }
            chunk /= 2;
        }
    }
    // shorten the schedule
    let mut chunk = schedule.len().max(1) / 2;
    while chunk >= 1 {
        let mut i = 0;
        while i < schedule.len() {
            let mut t = schedule.clone();
            let end = (i + chunk).min(t.len());
            t.drain(i..end);
            let c = Case::W4 { scripts: scripts.clone(), schedule: t.clone() };
            if reproduces(&c, sig, ctx) {
                schedule = t;
            } else {
                i += chunk;
            }
        }
        if chunk == 1 {
            break;
        }
        chunk /= 2;
    }
    Case::W4 { scripts, schedule }
}
