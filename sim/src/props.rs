//! Per-property exploration plans: which workloads, mixes and fault enumerations a run index
//! of property P expands to, and what makes a run non-trivial for P.

use crate::cases::*;
use crate::common::Stats;
use crate::rng::Rng;
use crate::simalloc::Plan;
use crate::w1_gen::{gen_w1, Faults, Mix};

/// the decoder spaces are cut into this many chunks each (3 spaces); run indices 0, 32, 64, ...
/// address them, so any batch of >= 32 * 3 * W5_CHUNKS indices enumerates them completely
pub const W5_CHUNKS: u32 = 512;

pub const W1_PROPS: [&str; 11] = ["C01", "C02", "C03", "C04", "C06", "C07", "C08", "C09", "C10", "C11", "C12"];

pub struct Sink<'a> {
    pub f: &'a mut dyn FnMut(&Case, CaseResult),
}

fn pick_mix(r: &mut Rng, table: &[(Mix, u32)]) -> Mix {
    let w: Vec<u32> = table.iter().map(|x| x.1).collect();
    table[r.weighted(&w)].0
}

/// Expand one run index into cases and execute them. `thorough` widens the enumerations.
pub fn run_index(prop: &str, seed: u64, thorough: bool, ctx: &Ctx, sink: &mut dyn FnMut(&Case, CaseResult)) {
    let mut r = Rng::new(seed).sub(99);
    let faults = if r.chance(1, 2) { Faults::Some } else { Faults::None };
    match prop {
        "C02" if r.chance(1, 6) => {
            // raw arena blocks next to growing collections: their bytes must not change either
            let mut s = crate::w2_gen::gen_w2(seed, crate::w2_gen::Focus::Vec);
            if !s.clients.iter().any(|c| *c == crate::w2_ops::ClientKind::Raw) {
                s.clients.push(crate::w2_ops::ClientKind::Raw);
                let ci = (s.clients.len() - 1) as u8;
                let mut rr = Rng::new(seed).sub(55);
                let n = s.steps.len();
                for k in 0..3 {
                    let at = if n == 0 { 0 } else { rr.usize_below(n.min(4) + 1) };
                    s.steps.insert(at.min(s.steps.len()), (ci, crate::w2_ops::COp::R(crate::w2_ops::ROp::Alloc { size: 16 + 40 * k, align: 1 << rr.below(4), seed: rr.next() as u32 })));
                }
            }
            let c = Case::W2(s);
            let res = run_case(&c, ctx);
            sink(&c, res);
        }
        "C01" | "C02" | "C04" | "C08" => {
            if prop == "C04" && r.chance(1, 400) {
                let c = Case::W8;
                let res = run_case(&c, ctx);
                sink(&c, res);
            }
            let mix = pick_mix(
                &mut r,
                &[
                    (Mix::General, 50),
                    (Mix::AllocatorApi, 20),
                    (Mix::TryWith, 10),
                    (Mix::ResetHeavy, 10),
                    (Mix::LimitHeavy, 10),
                ],
            );
            let c = Case::W1(gen_w1(seed, mix, faults));
            let res = run_case(&c, ctx);
            sink(&c, res);
        }
        "C03" => {
            let mix = pick_mix(&mut r, &[(Mix::General, 50), (Mix::ResetHeavy, 30), (Mix::LimitHeavy, 10), (Mix::AllocatorApi, 10)]);
            if faults == Faults::Some {
                let c = Case::W1(gen_w1(seed, mix, Faults::Some));
                let res = run_case(&c, ctx);
                sink(&c, res);
            } else {
                enumerate_refusals(seed, mix, thorough, false, ctx, sink);
            }
        }
        "C06" => {
            let c = Case::W1(gen_w1(seed, Mix::ResetHeavy, faults));
            let res = run_case(&c, ctx);
            sink(&c, res);
        }
        "C07" => {
            if r.chance(1, 6) {
                let c = Case::W1TwinPulse(gen_w1(seed, Mix::NoLimitWithPulses, Faults::None));
                let res = run_case(&c, ctx);
                sink(&c, res);
            } else if r.chance(1, 5) {
                // "an arena with no limit behaves as if the feature did not exist": under refusal
                // plans too, no limit must be indistinguishable from a limit that cannot bind
                let c = Case::W1TwinNoLimit(gen_w1(seed, Mix::NoLimitWithPulses, faults));
                let res = run_case(&c, ctx);
                sink(&c, res);
            } else {
                let c = Case::W1(gen_w1(seed, Mix::LimitHeavy, faults));
                let res = run_case(&c, ctx);
                sink(&c, res);
            }
        }
        "C09" => {
            if faults == Faults::Some {
                let c = Case::W1TwinInfallible(gen_w1(seed, Mix::FallibleOnly, Faults::Some));
                let res = run_case(&c, ctx);
                sink(&c, res);
            } else {
                enumerate_refusals(seed, Mix::FallibleOnly, thorough, true, ctx, sink);
            }
        }
        "C10" => {
            let mix = pick_mix(&mut r, &[(Mix::Uniform, 70), (Mix::General, 20), (Mix::TryWith, 10)]);
            let c = Case::W1(gen_w1(seed, mix, if mix == Mix::Uniform && r.chance(1, 2) { Faults::None } else { faults }));
            let res = run_case(&c, ctx);
            sink(&c, res);
        }
        "C11" => {
            let c = Case::W1(gen_w1(seed, Mix::TryWith, faults));
            let res = run_case(&c, ctx);
            sink(&c, res);
        }
        "C12" => {
            if r.chance(1, 4) {
                // standard collections parameterised by the arena, mirrored on std
                let c = Case::W2(crate::w2_gen::gen_w2(seed, crate::w2_gen::Focus::AVec));
                let res = run_case(&c, ctx);
                sink(&c, res);
            } else {
                let c = Case::W1(gen_w1(seed, Mix::AllocatorApi, faults));
                let res = run_case(&c, ctx);
                sink(&c, res);
            }
        }
        "C13" | "C14" | "C15" | "C17" => {
            use crate::w2_gen::{gen_w2, Focus};
            let f = match prop {
                "C13" => Focus::Vec,
                "C14" => Focus::Str,
                "C15" => Focus::Drops,
                _ => Focus::Boxes,
            };
            let c = Case::W2(gen_w2(seed, f));
            let res = run_case(&c, ctx);
            sink(&c, res);
        }
        "C20" => {
            let n = 2 + r.usize_below(3);
            let mut scripts = Vec::new();
            for i in 0..n {
                let mix = pick_mix(&mut r, &[(Mix::General, 50), (Mix::ResetHeavy, 20), (Mix::LimitHeavy, 10), (Mix::TryWith, 10), (Mix::AllocatorApi, 10)]);
                let f = if r.chance(1, 3) { Faults::Some } else { Faults::None };
                let mut s = gen_w1(crate::rng::mix2(seed, i as u64), mix, f);
                // interleaving is about many short histories
                s.ops.truncate(40);
                if r.chance(1, 3) {
                    // arenas that never obtain memory / only make zero-sized requests
                    s.ctor = crate::w1_ops::Ctor::New;
                    s.ops.insert(0, crate::w1_ops::Op::Val { fl: crate::w1_ops::VFl::Alloc, ty: crate::w1_ops::Ty::Unit, seed: 1 });
                    s.ops.insert(1, crate::w1_ops::Op::Layout { try_: true, size: 0, align: 1 << r.below(5), seed: 2 });
                }
                scripts.push(s);
            }
            let total: usize = scripts.iter().map(|s| s.ops.len() + 1).sum();
            let schedule: Vec<u8> = (0..total + 4).map(|_| r.below(n as u64) as u8).collect();
            let c = Case::W4 { scripts, schedule };
            let res = run_case(&c, ctx);
            sink(&c, res);
        }
        "C19" => {
            let c = Case::W6(crate::w67::gen_w6(seed));
            let res = run_case(&c, ctx);
            sink(&c, res);
        }
        "C18" => {
            if r.chance(3, 4) {
                let c = Case::W7(crate::w67::gen_w7(seed));
                let res = run_case(&c, ctx);
                sink(&c, res);
            } else {
                // chunk_capacity / reuse probes after arbitrary histories
                let c = Case::W1(gen_w1(seed, Mix::General, faults));
                let res = run_case(&c, ctx);
                sink(&c, res);
            }
        }
        "C16" => {
            // crash-point enumeration: count the callback invocations of the operation, then
            // re-execute from scratch with the injected panic at invocation k, for every k
            let base = crate::w3::gen_w3(seed);
            let c0 = Case::W3(base.clone());
            let res0 = run_case(&c0, ctx);
            let n = res0.requests as u64;
            let clean = res0.violations.is_empty();
            sink(&c0, res0);
            if !clean || n == 0 {
                return;
            }
            // every index up to 64 callbacks (thorough) / 16 (quick); a sample of 64 / 16 above
            let full = if thorough { 64 } else { 16 };
            let ks: Vec<u64> = if n <= full {
                (1..=n).collect()
            } else {
                let mut v: Vec<u64> = vec![1, 2, n - 1, n];
                let mut rr = Rng::new(seed).sub(78);
                while (v.len() as u64) < full {
                    let k = 1 + rr.below(n);
                    if !v.contains(&k) {
                        v.push(k);
                    }
                }
                v
            };
            for k in ks {
                let mut s = base.clone();
                s.panic_at = k;
                let c = Case::W3(s);
                let res = run_case(&c, ctx);
                sink(&c, res);
            }
        }
        _ => panic!("unknown property {}", prop),
    }
}

/// Fault enumeration (C03, C09): run the script fault-free, count its R chunk requests, then
/// re-run it refusing the k-th request, the k-th and all later ones, and everything larger
/// than the k-th request's size - for every k (thorough) or a sample of k (quick).
fn enumerate_refusals(seed: u64, mix: Mix, thorough: bool, twin: bool, ctx: &Ctx, sink: &mut dyn FnMut(&Case, CaseResult)) {
    let base = gen_w1(seed, mix, Faults::None);
    let wrap = |s| if twin { Case::W1TwinInfallible(s) } else { Case::W1(s) };
    let c0 = wrap(base.clone());
    let res0 = run_case(&c0, ctx);
    let r_total = res0.requests;
    let sizes = res0.request_sizes.clone();
    let clean = res0.violations.is_empty();
    sink(&c0, res0);
    if !clean || r_total == 0 {
        return;
    }
    let mut rr = Rng::new(seed).sub(77);
    let ks: Vec<u32> = if thorough || r_total <= 4 {
        (1..=r_total).collect()
    } else {
        let mut v = vec![1, r_total];
        while v.len() < 4 {
            let k = 1 + rr.below(r_total as u64) as u32;
            if !v.contains(&k) {
                v.push(k);
            }
        }
        v
    };
    for k in ks {
        let mut plans = vec![Plan::Kth(k), Plan::From(k)];
        if let Some(&s) = sizes.get(k as usize - 1) {
            plans.push(Plan::Above(s.saturating_sub(1)));
        }
        for p in plans {
            let mut s = base.clone();
            s.plan = p;
            let c = wrap(s);
            let res = run_case(&c, ctx);
            sink(&c, res);
        }
    }
    let mut s = base;
    s.plan = Plan::All;
    let c = wrap(s);
    let res = run_case(&c, ctx);
    sink(&c, res);
}

/// Is this executed case non-trivial for the property (DESIGN §7)?
pub fn nontrivial(prop: &str, st: &Stats) -> bool {
    let g = |k: &str| st.probes.get(k).copied().unwrap_or(0);
    let allocs = g("alloc_fast_path") + g("alloc_slow_path");
    match prop {
        "C01" | "C02" => allocs >= 3 || g("w2_mirrored_call") >= 2,
        "C03" => g("op_with_chunk_free") >= 1,
        "C04" => allocs >= 1,
        "C06" => g("reset") >= 1,
        "C07" => g("limit_decision_granted") + g("alloc_failed_under_limit") + g("twin_pulse_pair") >= 1,
        "C08" => g("chunk_granted") >= 1,
        "C09" => g("fallible_call_failed") >= 1,
        "C10" => g("iter_chunks") >= 1 && g("chunk_granted") >= 1,
        "C11" => g("initialiser_failed") + g("slice_initialiser_failed") >= 1,
        "C12" => g("w2_mirrored_call") >= 2 || g("grow_in_place") + g("grow_relocated_same_chunk") + g("grow_into_new_chunk") + g("shrink_kept_address") + g("shrink_in_place_moved_up") + g("deallocate_reclaimed") >= 1,
        "C13" | "C14" | "C15" | "C17" => g("w2_mirrored_call") >= 2,
        "C16" => g("w3_injected_panic_fired") >= 1,
        "C20" => g("w4_interleaved_run") >= 1,
        "C19" => g("w6_impossible_request") >= 1 || g("w6_ok") >= 1,
        "C18" => g("w7_growth_workload") + g("w7_cap_exact") + g("w7_vec_promise") + g("w7_vec_growth") + g("w7_str_promise") + g("w7_str_growth") + g("cap_probe") + g("reuse_probe_after_ctor") >= 1,
        _ => true,
    }
}
