//! One integer decides everything: splitmix64 seeding + xoshiro256** streams.
//! Sub-streams are derived by hashing (seed, stream id) so that adding a draw in
//! one place never shifts another stream.

#[inline]
pub fn splitmix64(x: u64) -> u64 {
    let mut z = x.wrapping_add(0x9E37_79B9_7F4A_7C15);
    z = (z ^ (z >> 30)).wrapping_mul(0xBF58_476D_1CE4_E5B9);
    z = (z ^ (z >> 27)).wrapping_mul(0x94D0_49BB_1331_11EB);
    z ^ (z >> 31)
}

pub fn mix2(a: u64, b: u64) -> u64 {
    splitmix64(splitmix64(a) ^ b.wrapping_mul(0xD6E8_FEB8_6659_FD93))
}

pub fn fnv(s: &str) -> u64 {
    let mut h: u64 = 0xcbf2_9ce4_8422_2325;
    for b in s.bytes() {
        h ^= b as u64;
        h = h.wrapping_mul(0x1000_0000_01b3);
    }
    h
}

#[derive(Clone, Debug)]
pub struct Rng {
    s: [u64; 4],
    seed: u64,
}

impl Rng {
    pub fn new(seed: u64) -> Rng {
        let mut x = seed;
        let mut s = [0u64; 4];
        for i in 0..4 {
            x = splitmix64(x.wrapping_add(i as u64 + 1));
            s[i] = x;
        }
        if s == [0; 4] {
            s[0] = 1;
        }
        Rng { s, seed }
    }
    /// Independent sub-stream keyed by `id`; does not consume from `self`.
    pub fn sub(&self, id: u64) -> Rng {
        Rng::new(mix2(self.seed, id))
    }
    #[inline]
    pub fn next(&mut self) -> u64 {
        let s = &mut self.s;
        let r = s[1].wrapping_mul(5).rotate_left(7).wrapping_mul(9);
        let t = s[1] << 17;
        s[2] ^= s[0];
        s[3] ^= s[1];
        s[1] ^= s[2];
        s[0] ^= s[3];
        s[2] ^= t;
        s[3] = s[3].rotate_left(45);
        r
    }
    /// uniform in [0, n); n == 0 gives 0
    #[inline]
    pub fn below(&mut self, n: u64) -> u64 {
        if n == 0 {
            0
        } else {
            ((self.next() as u128 * n as u128) >> 64) as u64
        }
    }
    #[inline]
    pub fn usize_below(&mut self, n: usize) -> usize {
        self.below(n as u64) as usize
    }
    /// uniform in [a, b] inclusive
    pub fn range(&mut self, a: i64, b: i64) -> i64 {
        debug_assert!(a <= b);
        a + self.below((b - a) as u64 + 1) as i64
    }
    pub fn chance(&mut self, num: u64, den: u64) -> bool {
        self.below(den) < num
    }
    pub fn pick<'a, T>(&mut self, xs: &'a [T]) -> &'a T {
        &xs[self.usize_below(xs.len())]
    }
    /// index drawn proportionally to weights (all-zero weights give 0)
    pub fn weighted(&mut self, w: &[u32]) -> usize {
        let total: u64 = w.iter().map(|&x| x as u64).sum();
        if total == 0 {
            return 0;
        }
        let mut r = self.below(total);
        for (i, &x) in w.iter().enumerate() {
            if r < x as u64 {
                return i;
            }
            r -= x as u64;
        }
        w.len() - 1
    }
    /// geometric-ish length in [lo, hi], mean around `mean`
    pub fn geo(&mut self, lo: usize, hi: usize, mean: usize) -> usize {
        let mut n = lo;
        let m = mean.max(lo + 1) - lo;
        while n < hi && self.below(m as u64 + 1) != 0 {
            n += 1;
        }
        n
    }
}
