//! SimAlloc — the global-allocator seam (DESIGN §2.1).
//!
//! Every alloc/dealloc of the process arrives here. A thread-local *mode* says on whose
//! behalf the current code runs. In `Arena` mode every `alloc` is a chunk request of that
//! arena and is decided by the run's placement stream and fault plan; frees are classified
//! by address. Nothing in here allocates through itself: the ledger is a fixed table.

use serde::{Deserialize, Serialize};
use std::alloc::{GlobalAlloc, Layout, System};
use std::cell::Cell;
use std::sync::atomic::{AtomicBool, Ordering};

pub const MAX_ENTRIES: usize = 4096;
pub const MAX_EVENTS: usize = 4096;
pub const MAX_ARENAS: usize = 8;
pub const REDZONE: usize = 64;
pub const PAGE: usize = 4096;
pub const BIG_ALIGN: usize = 128 << 10;
/// simulated machine size: anything larger is always refused ("exhaustion")
pub const MACHINE_BYTES: usize = 16 << 20;
pub const MACHINE_MAX_ALIGN: usize = 1 << 20;
const QUARANTINE_BUDGET: usize = 512 << 20;
pub const RETRY_ALARM: u32 = 2_000;

const FILL_FRESH: u8 = 0xA5;
const FILL_RED: u8 = 0xFD;
const FILL_FREED: u8 = 0xDD;

pub struct SimAlloc;

#[derive(Clone, Copy, Debug, PartialEq, Eq, Serialize, Deserialize)]
pub enum Plan {
    None,
    /// refuse exactly the k-th request (1-based, per arena)
    Kth(u32),
    /// refuse the k-th and every later request
    From(u32),
    /// refuse every request strictly larger than this many bytes
    Above(usize),
    All,
    /// refuse with probability num/1024, decided by hash(seed, arena, idx)
    Prob { num: u32, seed: u64 },
    /// refuse requests a..=b
    Window(u32, u32),
    /// refuse the listed request indices (0 = unused slot)
    List([u32; 8]),
}

impl Plan {
    fn refuses(&self, arena: u32, idx: u32, size: usize) -> bool {
        match *self {
            Plan::None => false,
            Plan::Kth(k) => idx == k,
            Plan::From(k) => idx >= k,
            Plan::Above(s) => size > s,
            Plan::All => true,
            Plan::Prob { num, seed } => {
                (crate::rng::mix2(seed ^ ((arena as u64) << 32), idx as u64) & 1023) < num as u64
            }
            Plan::Window(a, b) => idx >= a && idx <= b,
            Plan::List(l) => idx != 0 && l.iter().any(|&k| k == idx),
        }
    }
    pub fn kind(&self) -> &'static str {
        match self {
            Plan::None => "none",
            Plan::Kth(_) => "fail_kth",
            Plan::From(_) => "fail_from",
            Plan::Above(_) => "fail_above",
            Plan::All => "fail_all",
            Plan::Prob { .. } => "fail_prob",
            Plan::Window(..) => "window",
            Plan::List(_) => "fail_list",
        }
    }
}

#[derive(Clone, Copy, Debug, PartialEq, Eq, Serialize, Deserialize)]
pub enum Placement {
    /// j drawn from hash(seed, arena, request index), biased to odd j
    Seeded(u64),
    /// fixed slot index (clamped to the number of slots)
    Fixed(u32),
}

#[derive(Clone, Copy, Debug)]
pub struct Entry {
    pub arena: u32,
    pub req_idx: u32,
    pub seq: u32,
    pub size: usize,
    pub align: usize,
    pub user: usize,
    real: usize,
    real_size: usize,
    real_align: usize,
    /// 1 live, 2 quarantined, 3 released from quarantine
    pub state: u8,
    pub j: u32,
}

const EMPTY_ENTRY: Entry = Entry {
    arena: 0,
    req_idx: 0,
    seq: 0,
    size: 0,
    align: 0,
    user: 0,
    real: 0,
    real_size: 0,
    real_align: 0,
    state: 0,
    j: 0,
};

#[derive(Clone, Copy, Debug, PartialEq, Eq)]
pub enum Refusal {
    Granted,
    Plan,
    Exhaustion,
}

#[derive(Clone, Copy, Debug, PartialEq, Eq)]
pub enum Anomaly {
    DoubleFree,
    FreeInsideLiveChunk,
    FreeInsideFreedChunk,
    FreeSentinel,
    RedzoneBefore,
    RedzoneAfter,
    WriteAfterFree,
    UnboundedRetries,
    LedgerOverflow,
    EventOverflow,
}

#[derive(Clone, Copy, Debug)]
pub enum Event {
    Request {
        arena: u32,
        req_idx: u32,
        size: usize,
        align: usize,
        outcome: Refusal,
        entry: u32,
    },
    Free {
        /// arena that owns the chunk according to the ledger
        owner: u32,
        /// arena on whose behalf the freeing code ran (u32::MAX: not in arena mode)
        by: u32,
        entry: u32,
        layout_ok: bool,
    },
    Anomaly {
        kind: Anomaly,
        a: usize,
        b: usize,
    },
}

struct State {
    entries: [Entry; MAX_ENTRIES],
    n: usize,
    events: [Event; MAX_EVENTS],
    nev: usize,
    ev_overflow: bool,
    req_count: [u32; MAX_ARENAS],
    plans: [Plan; MAX_ARENAS],
    placement: Placement,
    seq: u32,
    calls_in_op: u32,
    retry_alarmed: bool,
    /// requests above this size are refused ("exhaustion"); MACHINE_BYTES unless a workload raises it
    machine: usize,
    sentinel: usize,
    min_addr: usize,
    max_addr: usize,
    quarantined_bytes: usize,
    // counters of faults that actually fired, by plan kind index
    pub fired_plan: u64,
    pub fired_exhaustion: u64,
    pub granted: u64,
}

static LOCK: AtomicBool = AtomicBool::new(false);
static mut STATE: State = State {
    entries: [EMPTY_ENTRY; MAX_ENTRIES],
    n: 0,
    events: [Event::Anomaly {
        kind: Anomaly::EventOverflow,
        a: 0,
        b: 0,
    }; MAX_EVENTS],
    nev: 0,
    ev_overflow: false,
    req_count: [0; MAX_ARENAS],
    plans: [Plan::None; MAX_ARENAS],
    placement: Placement::Fixed(0),
    seq: 0,
    calls_in_op: 0,
    retry_alarmed: false,
    machine: MACHINE_BYTES,
    sentinel: 0,
    min_addr: usize::MAX,
    max_addr: 0,
    quarantined_bytes: 0,
    fired_plan: 0,
    fired_exhaustion: 0,
    granted: 0,
};

fn with_state<R>(f: impl FnOnce(&mut State) -> R) -> R {
    while LOCK
        .compare_exchange_weak(false, true, Ordering::Acquire, Ordering::Relaxed)
        .is_err()
    {
        std::hint::spin_loop();
    }
    // SAFETY: guarded by LOCK
    #[allow(static_mut_refs)]
    let r = f(unsafe { &mut *std::ptr::addr_of_mut!(STATE) });
    LOCK.store(false, Ordering::Release);
    r
}

// ---- mode ---------------------------------------------------------------------------------

const MODE_HARNESS: u32 = u32::MAX;

thread_local! {
    static MODE: Cell<u32> = const { Cell::new(MODE_HARNESS) };
    static UNWINDING: Cell<bool> = const { Cell::new(false) };
    static CALL_DEPTH: Cell<u32> = const { Cell::new(0) };
}

/// true while a call into bumpalo is on the stack of this thread
pub fn inside_arena_call() -> bool {
    CALL_DEPTH.try_with(|d| d.get() > 0).unwrap_or(false)
}

#[inline]
fn mode() -> u32 {
    MODE.try_with(|m| m.get()).unwrap_or(MODE_HARNESS)
}
#[inline]
fn unwinding() -> bool {
    UNWINDING.try_with(|m| m.get()).unwrap_or(false)
}

pub struct ModeGuard(u32);
impl Drop for ModeGuard {
    fn drop(&mut self) {
        let _ = MODE.try_with(|m| m.set(self.0));
    }
}

/// Enter arena mode for the duration of the guard: allocations are chunk requests of `arena`.
pub fn enter_arena(arena: u32) -> ModeGuard {
    debug_assert!((arena as usize) < MAX_ARENAS);
    let prev = MODE.with(|m| m.replace(arena));
    if prev == MODE_HARNESS {
        with_state(|s| {
            s.calls_in_op = 0;
            s.retry_alarmed = false;
        });
    }
    ModeGuard(prev)
}

/// Run harness code (a callback invoked by bumpalo): allocations pass through to System.
pub fn harness_scope() -> ModeGuard {
    let prev = MODE.with(|m| m.replace(MODE_HARNESS));
    ModeGuard(prev)
}

/// Called by the panic hook: from now until `clear_unwinding`, requests that can only be
/// panic machinery (align < 16) are passed through even in arena mode.
pub fn note_panic() {
    let _ = UNWINDING.try_with(|u| u.set(true));
}
pub fn clear_unwinding() {
    let _ = UNWINDING.try_with(|u| u.set(false));
    let _ = MODE.try_with(|m| m.set(MODE_HARNESS));
}

/// Run `f` as a call into bumpalo on behalf of `arena`, catching unwinding.
pub fn arena_call<R>(arena: u32, f: impl FnOnce() -> R) -> Result<R, Box<dyn std::any::Any + Send>> {
    let g = enter_arena(arena);
    let _ = CALL_DEPTH.try_with(|d| d.set(d.get() + 1));
    let r = std::panic::catch_unwind(std::panic::AssertUnwindSafe(f));
    let _ = CALL_DEPTH.try_with(|d| d.set(d.get() - 1));
    drop(g);
    if r.is_err() {
        clear_unwinding();
    }
    r
}

/// Run harness code whose panics are expected (the std mirror): the panic hook stays silent.
pub fn quiet_call<R>(f: impl FnOnce() -> R) -> R {
    let _ = CALL_DEPTH.try_with(|d| d.set(d.get() + 1));
    let r = f();
    let _ = CALL_DEPTH.try_with(|d| d.set(d.get() - 1));
    r
}

// ---- run control (harness mode only) ------------------------------------------------------

pub fn begin_run(placement: Placement) {
    with_state(|s| {
        debug_assert!(s.n == 0);
        s.nev = 0;
        s.ev_overflow = false;
        s.req_count = [0; MAX_ARENAS];
        s.plans = [Plan::None; MAX_ARENAS];
        s.placement = placement;
        s.seq = 0;
        s.calls_in_op = 0;
        s.retry_alarmed = false;
        s.machine = MACHINE_BYTES;
        s.min_addr = usize::MAX;
        s.max_addr = 0;
        s.quarantined_bytes = 0;
    });
}

/// raise the simulated machine size for the run in progress (reset by the next begin_run)
pub fn set_machine_bytes(n: usize) {
    with_state(|s| s.machine = n);
}

pub fn set_plan(arena: u32, plan: Plan) {
    with_state(|s| s.plans[arena as usize] = plan);
}
pub fn get_plan(arena: u32) -> Plan {
    with_state(|s| s.plans[arena as usize])
}
pub fn set_sentinel(addr: usize) {
    with_state(|s| s.sentinel = addr);
}
pub fn sentinel() -> usize {
    with_state(|s| s.sentinel)
}
pub fn request_count(arena: u32) -> u32 {
    with_state(|s| s.req_count[arena as usize])
}
/// (plan refusals fired, exhaustion refusals fired, granted) since process start
pub fn fired_totals() -> (u64, u64, u64) {
    with_state(|s| (s.fired_plan, s.fired_exhaustion, s.granted))
}

/// Move the events recorded since the last call into `out`.
pub fn take_events(out: &mut Vec<Event>) {
    let n = with_state(|s| s.nev);
    out.reserve(n + 1);
    with_state(|s| {
        for i in 0..s.nev {
            out.push(s.events[i]);
        }
        if s.ev_overflow {
            out.push(Event::Anomaly {
                kind: Anomaly::EventOverflow,
                a: 0,
                b: 0,
            });
        }
        s.nev = 0;
        s.ev_overflow = false;
    });
}

/// Live chunks of `arena` in acquisition order.
pub fn held(arena: u32, out: &mut Vec<Entry>) {
    out.clear();
    let n = with_state(|s| s.n);
    out.reserve(n);
    with_state(|s| {
        for i in 0..s.n {
            let e = s.entries[i];
            if e.state == 1 && e.arena == arena {
                out.push(e);
            }
        }
    });
}

pub fn entry(idx: u32) -> Entry {
    with_state(|s| s.entries[idx as usize])
}

/// Verify red zones of every live chunk; returns the first anomaly found.
pub fn check_redzones() -> Option<(Anomaly, u32)> {
    with_state(|s| {
        for i in 0..s.n {
            let e = &s.entries[i];
            if e.state == 1 {
                if let Some(a) = redzone_check(e) {
                    return Some((a, i as u32));
                }
            }
        }
        None
    })
}

fn redzone_check(e: &Entry) -> Option<Anomaly> {
    unsafe {
        let before = (e.user - REDZONE) as *const u8;
        for k in 0..REDZONE {
            if *before.add(k) != FILL_RED {
                return Some(Anomaly::RedzoneBefore);
            }
        }
        let after = (e.user + e.size) as *const u8;
        for k in 0..REDZONE {
            if *after.add(k) != FILL_RED {
                return Some(Anomaly::RedzoneAfter);
            }
        }
    }
    None
}

fn poison_intact(e: &Entry) -> bool {
    unsafe {
        let p = e.user as *const u8;
        // compare word-wise for speed
        let mut k = 0;
        while k < e.size {
            if *p.add(k) != FILL_FREED {
                return false;
            }
            k += 1;
        }
    }
    true
}

pub struct EndOfRun {
    pub leaked: u32,
    pub write_after_free: u32,
    pub redzone: u32,
}

/// Release everything the run still holds (after the harness has looked at the ledger).
pub fn end_run() -> EndOfRun {
    let mut out = EndOfRun {
        leaked: 0,
        write_after_free: 0,
        redzone: 0,
    };
    with_state(|s| {
        for i in 0..s.n {
            let e = s.entries[i];
            match e.state {
                1 => {
                    out.leaked += 1;
                    if redzone_check(&e).is_some() {
                        out.redzone += 1;
                    }
                    unsafe {
                        System.dealloc(
                            e.real as *mut u8,
                            Layout::from_size_align_unchecked(e.real_size, e.real_align),
                        )
                    };
                }
                2 => {
                    if !poison_intact(&e) {
                        out.write_after_free += 1;
                    }
                    unsafe {
                        System.dealloc(
                            e.real as *mut u8,
                            Layout::from_size_align_unchecked(e.real_size, e.real_align),
                        )
                    };
                }
                _ => {}
            }
            s.entries[i].state = 0;
        }
        s.n = 0;
        s.nev = 0;
        s.quarantined_bytes = 0;
    });
    out
}

// ---- the allocator ------------------------------------------------------------------------

impl State {
    fn push_event(&mut self, e: Event) {
        if self.retry_alarmed && matches!(e, Event::Request { .. }) {
            // the alarm has been recorded; do not let the flood overflow the table
            return;
        }
        if self.nev < MAX_EVENTS {
            self.events[self.nev] = e;
            self.nev += 1;
        } else {
            self.ev_overflow = true;
        }
    }

    fn chunk_request(&mut self, arena: u32, layout: Layout) -> *mut u8 {
        let a = arena as usize;
        self.req_count[a] += 1;
        self.calls_in_op += 1;
        let idx = self.req_count[a];
        let size = layout.size();
        let align = layout.align();
        let mut alarmed_grant = false;
        if self.calls_in_op > RETRY_ALARM {
            if !self.retry_alarmed {
                self.retry_alarmed = true;
                self.push_event(Event::Anomaly {
                    kind: Anomaly::UnboundedRetries,
                    a: size,
                    b: align,
                });
            }
            alarmed_grant = true;
        }
        let exhausted = size > self.machine || align > MACHINE_MAX_ALIGN;
        if exhausted {
            if alarmed_grant && self.calls_in_op > 2 * RETRY_ALARM {
                // cannot grant and the call does not stop asking: report and die; the driver
                // attributes the death to the run in progress
                use std::io::Write;
                let _ = std::io::stderr().write_all(b"\nSIMALLOC-FATAL unbounded-retries\n");
                std::process::abort();
            }
            self.fired_exhaustion += 1;
            self.push_event(Event::Request {
                arena,
                req_idx: idx,
                size,
                align,
                outcome: Refusal::Exhaustion,
                entry: u32::MAX,
            });
            return std::ptr::null_mut();
        }
        if !alarmed_grant && self.plans[a].refuses(arena, idx, size) {
            self.fired_plan += 1;
            self.push_event(Event::Request {
                arena,
                req_idx: idx,
                size,
                align,
                outcome: Refusal::Plan,
                entry: u32::MAX,
            });
            return std::ptr::null_mut();
        }
        if self.n >= MAX_ENTRIES {
            self.push_event(Event::Anomaly {
                kind: Anomaly::LedgerOverflow,
                a: 0,
                b: 0,
            });
            return std::ptr::null_mut();
        }
        // placement
        let slots = if align < PAGE { PAGE / align } else { 1 };
        let j = match self.placement {
            Placement::Fixed(j) => (j as usize).min(slots - 1),
            Placement::Seeded(seed) => {
                let r = crate::rng::mix2(seed ^ ((arena as u64) << 40), idx as u64);
                let mut j = ((r >> 8) as usize) % slots;
                if slots > 1 && (r & 1) == 1 {
                    j |= 1;
                }
                j
            }
        };
        // Chunk bases are a pure function of the seed modulo BIG_ALIGN (128 KiB), the strictest
        // alignment the arena workloads request: a 64 KiB-aligned block carved out of a chunk that
        // was itself requested with alignment 16 must land at the same chunk-relative offset in
        // every process, in a solo and in an interleaved run, and for both twins of a twin run.
        let real_align = align.max(BIG_ALIGN);
        let pre = align.max(PAGE);
        let real_size = pre + PAGE + size + REDZONE;
        let real = unsafe { System.alloc(Layout::from_size_align_unchecked(real_size, real_align)) };
        if real.is_null() {
            // the real machine is out of memory: treat as exhaustion
            self.fired_exhaustion += 1;
            self.push_event(Event::Request {
                arena,
                req_idx: idx,
                size,
                align,
                outcome: Refusal::Exhaustion,
                entry: u32::MAX,
            });
            return std::ptr::null_mut();
        }
        let user = real as usize + pre + j * align;
        unsafe {
            std::ptr::write_bytes((user - REDZONE) as *mut u8, FILL_RED, REDZONE);
            std::ptr::write_bytes(user as *mut u8, FILL_FRESH, size);
            std::ptr::write_bytes((user + size) as *mut u8, FILL_RED, REDZONE);
        }
        self.seq += 1;
        let ei = self.n;
        self.entries[ei] = Entry {
            arena,
            req_idx: idx,
            seq: self.seq,
            size,
            align,
            user,
            real: real as usize,
            real_size,
            real_align,
            state: 1,
            j: j as u32,
        };
        self.n += 1;
        self.min_addr = self.min_addr.min(real as usize);
        self.max_addr = self.max_addr.max(real as usize + real_size);
        self.granted += 1;
        self.push_event(Event::Request {
            arena,
            req_idx: idx,
            size,
            align,
            outcome: Refusal::Granted,
            entry: ei as u32,
        });
        user as *mut u8
    }

    /// returns true if the pointer was ours (handled), false if it must go to System
    fn classify_free(&mut self, ptr: usize, layout: Layout, by: u32) -> bool {
        if self.sentinel != 0 && ptr == self.sentinel {
            self.push_event(Event::Anomaly {
                kind: Anomaly::FreeSentinel,
                a: ptr,
                b: layout.size(),
            });
            return true;
        }
        if ptr < self.min_addr || ptr >= self.max_addr {
            return false;
        }
        for i in 0..self.n {
            let e = self.entries[i];
            if e.state == 0 || e.state == 3 {
                continue;
            }
            if ptr >= e.real && ptr < e.real + e.real_size {
                if ptr == e.user && e.state == 1 {
                    let layout_ok = layout.size() == e.size && layout.align() == e.align;
                    if let Some(a) = redzone_check(&e) {
                        self.push_event(Event::Anomaly {
                            kind: a,
                            a: i,
                            b: 0,
                        });
                    }
                    self.push_event(Event::Free {
                        owner: e.arena,
                        by,
                        entry: i as u32,
                        layout_ok,
                    });
                    unsafe { std::ptr::write_bytes(e.user as *mut u8, FILL_FREED, e.size) };
                    self.entries[i].state = 2;
                    self.quarantined_bytes += e.real_size;
                    self.evict_quarantine();
                } else if e.state == 1 {
                    self.push_event(Event::Anomaly {
                        kind: Anomaly::FreeInsideLiveChunk,
                        a: i,
                        b: ptr.wrapping_sub(e.user),
                    });
                } else if ptr == e.user {
                    self.push_event(Event::Anomaly {
                        kind: Anomaly::DoubleFree,
                        a: i,
                        b: 0,
                    });
                } else {
                    self.push_event(Event::Anomaly {
                        kind: Anomaly::FreeInsideFreedChunk,
                        a: i,
                        b: ptr.wrapping_sub(e.user),
                    });
                }
                return true;
            }
        }
        false
    }

    fn evict_quarantine(&mut self) {
        let mut i = 0;
        while self.quarantined_bytes > QUARANTINE_BUDGET && i < self.n {
            let e = self.entries[i];
            if e.state == 2 {
                if !poison_intact(&e) {
                    self.push_event(Event::Anomaly {
                        kind: Anomaly::WriteAfterFree,
                        a: i,
                        b: 0,
                    });
                }
                unsafe {
                    System.dealloc(
                        e.real as *mut u8,
                        Layout::from_size_align_unchecked(e.real_size, e.real_align),
                    )
                };
                self.entries[i].state = 3;
                self.quarantined_bytes -= e.real_size;
            }
            i += 1;
        }
    }
}

unsafe impl GlobalAlloc for SimAlloc {
    unsafe fn alloc(&self, layout: Layout) -> *mut u8 {
        let m = mode();
        if m == MODE_HARNESS {
            return System.alloc(layout);
        }
        // bumpalo requests every chunk with alignment >= 16 (its CHUNK_ALIGN); anything less
        // aligned that is allocated while bumpalo code runs is panic machinery (the message of
        // a formatted panic is built *before* the panic hook runs) and passes through
        if layout.align() < 16 {
            return System.alloc(layout);
        }
        let _ = unwinding();
        with_state(|s| s.chunk_request(m, layout))
    }

    unsafe fn dealloc(&self, ptr: *mut u8, layout: Layout) {
        let m = mode();
        let ours = with_state(|s| s.classify_free(ptr as usize, layout, m));
        if !ours {
            System.dealloc(ptr, layout);
        }
    }

    unsafe fn alloc_zeroed(&self, layout: Layout) -> *mut u8 {
        let p = self.alloc(layout);
        if !p.is_null() {
            std::ptr::write_bytes(p, 0, layout.size());
        }
        p
    }

    unsafe fn realloc(&self, ptr: *mut u8, layout: Layout, new_size: usize) -> *mut u8 {
        let m = mode();
        if m == MODE_HARNESS {
            // harness memory is never ours unless it is a chunk address (it is not: chunks are
            // only ever handed to bumpalo), so take the fast path
            let ours = with_state(|s| {
                let p = ptr as usize;
                p >= s.min_addr && p < s.max_addr
            });
            if !ours {
                return System.realloc(ptr, layout, new_size);
            }
        }
        let new_layout = Layout::from_size_align_unchecked(new_size, layout.align());
        let np = self.alloc(new_layout);
        if !np.is_null() {
            std::ptr::copy_nonoverlapping(ptr, np, layout.size().min(new_size));
            self.dealloc(ptr, layout);
        }
        np
    }
}
