//! Callback seam (DESIGN §2.2): element types with observable Clone/Default/Drop/PartialEq,
//! a drop ledger with two "worlds" (0 = bumpalo, 1 = std mirror), and a callback counter that
//! can inject a single-shot panic at a chosen invocation.

use crate::simalloc::harness_scope;
use std::collections::BTreeMap;
use std::sync::atomic::{AtomicBool, AtomicU64, Ordering};
use std::sync::Mutex;

pub struct Ledger {
    /// per world, by logical id: 0 never seen, 1 live, 2 dropped
    status: [Vec<u8>; 2],
    pub double_drops: Vec<(u8, u32)>,
    pub drop_count: [u64; 2],
    next_id: u32,
    clone_map: BTreeMap<(u32, u32), u32>,
    clone_ord: [BTreeMap<u32, u32>; 2],
    pub zst_created: [u64; 2],
    pub zst_dropped: [u64; 2],
}

impl Ledger {
    const fn new() -> Ledger {
        Ledger {
            status: [Vec::new(), Vec::new()],
            double_drops: Vec::new(),
            drop_count: [0, 0],
            next_id: 1,
            clone_map: BTreeMap::new(),
            clone_ord: [BTreeMap::new(), BTreeMap::new()],
            zst_created: [0, 0],
            zst_dropped: [0, 0],
        }
    }
    fn set(&mut self, w: usize, id: u32, v: u8) {
        let s = &mut self.status[w];
        if s.len() <= id as usize {
            s.resize(id as usize + 1, 0);
        }
        s[id as usize] = v;
    }
    pub fn get(&self, w: usize, id: u32) -> u8 {
        self.status[w].get(id as usize).copied().unwrap_or(0)
    }
    /// ids dropped so far in world `w`, ascending
    pub fn dropped_set(&self, w: usize) -> Vec<u32> {
        self.status[w]
            .iter()
            .enumerate()
            .filter(|(_, &s)| s == 2)
            .map(|(i, _)| i as u32)
            .collect()
    }
    pub fn live_set(&self, w: usize) -> Vec<u32> {
        self.status[w]
            .iter()
            .enumerate()
            .filter(|(_, &s)| s == 1)
            .map(|(i, _)| i as u32)
            .collect()
    }
    pub fn max_id(&self) -> u32 {
        self.next_id
    }
}

static LEDGER: Mutex<Ledger> = Mutex::new(Ledger::new());

pub fn ledger<R>(f: impl FnOnce(&mut Ledger) -> R) -> R {
    let _g = harness_scope();
    let mut l = LEDGER.lock().unwrap_or_else(|e| e.into_inner());
    f(&mut l)
}

pub fn reset_ledger() {
    ledger(|l| *l = Ledger::new());
    CB_COUNT.store(0, Ordering::Relaxed);
    PANIC_AT.store(0, Ordering::Relaxed);
    PANIC_FIRED.store(false, Ordering::Relaxed);
    TICK_MASK.store(0, Ordering::Relaxed);
}

/// fresh logical id (same id is then created in one or both worlds)
pub fn fresh_id() -> u32 {
    ledger(|l| {
        let id = l.next_id;
        l.next_id += 1;
        id
    })
}

// ---- callback counter and injected panic ---------------------------------------------------

pub const TICK_CLONE: u64 = 1;
pub const TICK_DROP: u64 = 2;
pub const TICK_EQ: u64 = 4;
pub const TICK_DEFAULT: u64 = 8;
pub const TICK_CLOSURE: u64 = 16;
pub const TICK_ITER: u64 = 32;

static CLONE_LOG_ON: AtomicBool = AtomicBool::new(false);
static CLONE_LOG: Mutex<Vec<u32>> = Mutex::new(Vec::new());

/// start recording the source id of every `Tr<0>::clone`
pub fn clone_log_start() {
    let _g = harness_scope();
    CLONE_LOG.lock().unwrap_or_else(|e| e.into_inner()).clear();
    CLONE_LOG_ON.store(true, Ordering::Relaxed);
}
pub fn clone_log_take() -> Vec<u32> {
    let _g = harness_scope();
    CLONE_LOG_ON.store(false, Ordering::Relaxed);
    std::mem::take(&mut *CLONE_LOG.lock().unwrap_or_else(|e| e.into_inner()))
}

static CB_COUNT: AtomicU64 = AtomicU64::new(0);
static PANIC_AT: AtomicU64 = AtomicU64::new(0);
static PANIC_FIRED: AtomicBool = AtomicBool::new(false);
static TICK_MASK: AtomicU64 = AtomicU64::new(0);

/// payload of injected panics
pub struct Injected;

pub fn arm(mask: u64, panic_at: u64) {
    CB_COUNT.store(0, Ordering::Relaxed);
    PANIC_AT.store(panic_at, Ordering::Relaxed);
    PANIC_FIRED.store(false, Ordering::Relaxed);
    TICK_MASK.store(mask, Ordering::Relaxed);
}
pub fn disarm() -> (u64, bool) {
    TICK_MASK.store(0, Ordering::Relaxed);
    PANIC_AT.store(0, Ordering::Relaxed);
    (
        CB_COUNT.load(Ordering::Relaxed),
        PANIC_FIRED.load(Ordering::Relaxed),
    )
}
pub fn cb_count() -> u64 {
    CB_COUNT.load(Ordering::Relaxed)
}

/// Count one callback invocation of class `class`; panics (once) if it is the armed one.
#[inline]
pub fn tick(class: u64) {
    if TICK_MASK.load(Ordering::Relaxed) & class == 0 {
        return;
    }
    let n = CB_COUNT.fetch_add(1, Ordering::Relaxed) + 1;
    let at = PANIC_AT.load(Ordering::Relaxed);
    if at != 0 && n == at && !PANIC_FIRED.swap(true, Ordering::Relaxed) {
        PANIC_AT.store(0, Ordering::Relaxed);
        std::panic::panic_any(Injected);
    }
}

// ---- tracked element types -----------------------------------------------------------------

/// 8-byte element with observable lifecycle. `W` is the world (0 bumpalo, 1 std mirror).
#[repr(C)]
pub struct Tr<const W: u8> {
    pub id: u32,
    pub tag: u32,
}

impl<const W: u8> Tr<W> {
    pub fn new(id: u32, tag: u32) -> Self {
        ledger(|l| {
            if l.get(W as usize, id) != 0 {
                // re-creating an id that exists: harness bug
                l.double_drops.push((W | 0x80, id));
            }
            l.set(W as usize, id, 1)
        });
        Tr { id, tag }
    }
}

impl<const W: u8> Drop for Tr<W> {
    fn drop(&mut self) {
        let id = self.id;
        ledger(|l| {
            if l.get(W as usize, id) != 1 {
                l.double_drops.push((W, id));
            }
            l.set(W as usize, id, 2);
            l.drop_count[W as usize] += 1;
        });
        if W == 0 {
            let _g = harness_scope();
            tick(TICK_DROP);
        }
    }
}

impl<const W: u8> Clone for Tr<W> {
    fn clone(&self) -> Self {
        if W == 0 {
            let _g = harness_scope();
            tick(TICK_CLONE);
        }
        let src = self.id;
        if W == 0 && CLONE_LOG_ON.load(Ordering::Relaxed) {
            let _g = harness_scope();
            CLONE_LOG.lock().unwrap_or_else(|e| e.into_inner()).push(src);
        }
        let id = ledger(|l| {
            let ord = {
                let o = l.clone_ord[W as usize].entry(src).or_insert(0);
                *o += 1;
                *o
            };
            let next = l.next_id;
            let id = *l.clone_map.entry((src, ord)).or_insert(next);
            if id == next {
                l.next_id += 1;
            }
            id
        });
        Tr::new(id, self.tag)
    }
}

impl<const W: u8> PartialEq for Tr<W> {
    fn eq(&self, o: &Self) -> bool {
        if W == 0 {
            let _g = harness_scope();
            tick(TICK_EQ);
        }
        self.tag == o.tag
    }
}

impl<const W: u8> std::fmt::Debug for Tr<W> {
    fn fmt(&self, f: &mut std::fmt::Formatter) -> std::fmt::Result {
        write!(f, "T{}:{}", self.id, self.tag)
    }
}

/// Tracked value whose `Default` is observable: default values take fresh ids.
impl<const W: u8> Default for Tr<W> {
    fn default() -> Self {
        if W == 0 {
            let _g = harness_scope();
            tick(TICK_DEFAULT);
        }
        let id = fresh_id();
        Tr::new(id, 0)
    }
}

/// Larger tracked element (40 bytes).
#[repr(C)]
pub struct Big<const W: u8> {
    pub t: Tr<W>,
    pub pad: [u64; 4],
}
impl<const W: u8> Big<W> {
    pub fn new(id: u32, tag: u32) -> Self {
        Big {
            t: Tr::new(id, tag),
            pad: [id as u64 ^ 0x5555_5555_5555_5555; 4],
        }
    }
    pub fn intact(&self) -> bool {
        self.pad == [self.t.id as u64 ^ 0x5555_5555_5555_5555; 4]
    }
}
impl<const W: u8> Clone for Big<W> {
    fn clone(&self) -> Self {
        let t = self.t.clone();
        let id = t.id;
        Big {
            t,
            pad: [id as u64 ^ 0x5555_5555_5555_5555; 4],
        }
    }
}
impl<const W: u8> PartialEq for Big<W> {
    fn eq(&self, o: &Self) -> bool {
        self.t == o.t
    }
}
impl<const W: u8> std::fmt::Debug for Big<W> {
    fn fmt(&self, f: &mut std::fmt::Formatter) -> std::fmt::Result {
        write!(f, "B{}:{}", self.t.id, self.t.tag)
    }
}

/// Over-aligned tracked element (64 bytes, aligned to 64: stricter than any minimum alignment and
/// than the 16 bytes chunks are aligned to).
#[repr(C, align(64))]
pub struct Wide<const W: u8> {
    pub t: Tr<W>,
    pub pad: [u64; 2],
}
impl<const W: u8> Wide<W> {
    pub fn new(id: u32, tag: u32) -> Self {
        Wide { t: Tr::new(id, tag), pad: [id as u64 ^ 0x3333_3333_3333_3333; 2] }
    }
    pub fn intact(&self) -> bool {
        self.pad == [self.t.id as u64 ^ 0x3333_3333_3333_3333; 2] && (self as *const Self as usize) % 64 == 0
    }
}
impl<const W: u8> Clone for Wide<W> {
    fn clone(&self) -> Self {
        let t = self.t.clone();
        let id = t.id;
        Wide { t, pad: [id as u64 ^ 0x3333_3333_3333_3333; 2] }
    }
}
impl<const W: u8> PartialEq for Wide<W> {
    fn eq(&self, o: &Self) -> bool {
        self.t == o.t
    }
}
impl<const W: u8> std::fmt::Debug for Wide<W> {
    fn fmt(&self, f: &mut std::fmt::Formatter) -> std::fmt::Result {
        write!(f, "W{}:{}", self.t.id, self.t.tag)
    }
}
impl<const W: u8> std::hash::Hash for Wide<W> {
    fn hash<H: std::hash::Hasher>(&self, h: &mut H) {
        self.t.hash(h)
    }
}
impl<const W: u8> serde::Serialize for Wide<W> {
    fn serialize<S: serde::Serializer>(&self, s: S) -> Result<S::Ok, S::Error> {
        s.serialize_u32(self.t.tag)
    }
}
impl<const W: u8> Elem for Wide<W> {
    const WORLD: u8 = W;
    const TRACKED: bool = true;
    fn mk(id: u32, tag: u32) -> Self {
        Wide::new(id, tag)
    }
    fn eid(&self) -> u32 {
        self.t.id
    }
    fn etag(&self) -> u32 {
        self.t.tag
    }
    fn intact(&self) -> bool {
        Wide::intact(self)
    }
}

/// Zero-sized element: counted, not identified.
pub struct Zt<const W: u8>;
impl<const W: u8> Zt<W> {
    pub fn new() -> Self {
        ledger(|l| l.zst_created[W as usize] += 1);
        Zt
    }
}
impl<const W: u8> Drop for Zt<W> {
    fn drop(&mut self) {
        ledger(|l| l.zst_dropped[W as usize] += 1);
        if W == 0 {
            let _g = harness_scope();
            tick(TICK_DROP);
        }
    }
}
impl<const W: u8> Clone for Zt<W> {
    fn clone(&self) -> Self {
        if W == 0 {
            let _g = harness_scope();
            tick(TICK_CLONE);
        }
        Zt::new()
    }
}
impl<const W: u8> PartialEq for Zt<W> {
    fn eq(&self, _: &Self) -> bool {
        if W == 0 {
            let _g = harness_scope();
            tick(TICK_EQ);
        }
        true
    }
}
impl<const W: u8> std::fmt::Debug for Zt<W> {
    fn fmt(&self, f: &mut std::fmt::Formatter) -> std::fmt::Result {
        write!(f, "Z")
    }
}

impl<const W: u8> std::hash::Hash for Tr<W> {
    fn hash<H: std::hash::Hasher>(&self, h: &mut H) {
        self.tag.hash(h)
    }
}
impl<const W: u8> std::hash::Hash for Big<W> {
    fn hash<H: std::hash::Hasher>(&self, h: &mut H) {
        self.t.tag.hash(h)
    }
}
impl<const W: u8> std::hash::Hash for Zt<W> {
    fn hash<H: std::hash::Hasher>(&self, _h: &mut H) {}
}

/// element abstraction shared by the bumpalo world (W = 0) and the std mirror (W = 1)
pub trait Elem: Sized + Clone + PartialEq + std::fmt::Debug + std::hash::Hash + serde::Serialize + 'static {
    const WORLD: u8;
    const TRACKED: bool;
    const ZST: bool = false;
    fn mk(id: u32, tag: u32) -> Self;
    fn eid(&self) -> u32;
    fn etag(&self) -> u32;
    fn intact(&self) -> bool {
        true
    }
}
impl<const W: u8> serde::Serialize for Tr<W> {
    fn serialize<S: serde::Serializer>(&self, s: S) -> Result<S::Ok, S::Error> {
        s.serialize_u32(self.tag)
    }
}
impl<const W: u8> serde::Serialize for Big<W> {
    fn serialize<S: serde::Serializer>(&self, s: S) -> Result<S::Ok, S::Error> {
        s.serialize_u32(self.etag())
    }
}
impl<const W: u8> serde::Serialize for Zt<W> {
    fn serialize<S: serde::Serializer>(&self, s: S) -> Result<S::Ok, S::Error> {
        s.serialize_unit()
    }
}
impl<const W: u8> Elem for Tr<W> {
    const WORLD: u8 = W;
    const TRACKED: bool = true;
    fn mk(id: u32, tag: u32) -> Self {
        Tr::new(id, tag)
    }
    fn eid(&self) -> u32 {
        self.id
    }
    fn etag(&self) -> u32 {
        self.tag
    }
}
impl<const W: u8> Elem for Big<W> {
    const WORLD: u8 = W;
    const TRACKED: bool = true;
    fn mk(id: u32, tag: u32) -> Self {
        Big::new(id, tag)
    }
    fn eid(&self) -> u32 {
        self.t.id
    }
    fn etag(&self) -> u32 {
        self.t.tag
    }
    fn intact(&self) -> bool {
        Big::intact(self)
    }
}
impl<const W: u8> Elem for Zt<W> {
    const WORLD: u8 = W;
    const TRACKED: bool = false;
    const ZST: bool = true;
    fn mk(_id: u32, _tag: u32) -> Self {
        Zt::new()
    }
    fn eid(&self) -> u32 {
        0
    }
    fn etag(&self) -> u32 {
        0
    }
}
/// plain Copy elements: the same type serves both worlds
impl Elem for u8 {
    const WORLD: u8 = 1;
    const TRACKED: bool = false;
    fn mk(_id: u32, tag: u32) -> Self {
        tag as u8
    }
    fn eid(&self) -> u32 {
        0
    }
    fn etag(&self) -> u32 {
        *self as u32
    }
}
impl Elem for u32 {
    const WORLD: u8 = 1;
    const TRACKED: bool = false;
    fn mk(_id: u32, tag: u32) -> Self {
        tag
    }
    fn eid(&self) -> u32 {
        0
    }
    fn etag(&self) -> u32 {
        *self
    }
}
