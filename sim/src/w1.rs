//! W1 interpreter: executes an arena history against the real `Bump<M>` through the SimAlloc
//! seam and evaluates the arena oracles (C01-C04, C06-C12, C18b) after every operation.

use crate::common::*;
use crate::simalloc::{self, Anomaly, Entry, Event, Refusal};
use crate::w1_ops::*;
use bumpalo::Bump;
use std::alloc::Layout;
use std::collections::BTreeMap;

#[derive(Clone, Debug, PartialEq)]
pub enum Expect {
    /// bytes are pat(seed, k)
    Pat(u32),
    Bytes(Vec<u8>),
    /// contents not tracked (e.g. holds tracked elements compared elsewhere)
    Opaque,
}

#[derive(Clone, Debug)]
pub struct Block {
    pub size: usize,
    pub align: usize,
    pub expect: Expect,
    /// obtained through alloc_layout / Allocator: may be deallocated, grown, shrunk
    pub raw: bool,
    /// req_idx of the chunk it lives in
    pub chunk: u32,
    /// allocated and kept by a (failing) initialiser (C11: "stay valid and untouched")
    pub kept_by_init: bool,
}

/// outcome class of one op, normalised so that `Err(AllocErr)` and the out-of-memory panic of
/// the infallible twin compare equal
#[derive(Clone, Copy, Debug, PartialEq, Eq)]
pub enum Out {
    Ok,
    AllocFail,
    InitErr,
    Panic,
    Skipped,
}

#[derive(Clone, Debug, PartialEq, Eq)]
pub struct TraceItem {
    pub kind: &'static str,
    pub out: Out,
    /// (chunk request index, offset in chunk) of the returned block, if any
    pub place: Option<(u32, usize)>,
    /// sizes of chunk requests made during the op and whether granted
    pub reqs: Vec<(usize, bool)>,
    /// reported numbers after the op: allocated_bytes, chunk_capacity
    pub ab: usize,
    pub cc: usize,
}

#[derive(Clone, Copy, Debug, Default)]
pub struct ExecOpts {
    /// replace every `try_x` by `x` (C09 twin)
    pub infallible_twin: bool,
    /// skip LimitPulse ops (C07 twin)
    pub skip_pulses: bool,
    /// arena id to use (W4a runs several)
    pub arena: u32,
    /// do not run the state-neutral probes after a failed allocation
    pub no_fail_probe: bool,
    /// property in focus (see `violate`)
    pub focus: Option<&'static str>,
    /// use this placement stream instead of the script's own (W4: all arenas of a case share one)
    pub placement: Option<crate::simalloc::Placement>,
    /// C07 twin: every constructed arena immediately gets set_allocation_limit(Some(usize::MAX)),
    /// a limit that can never bind; behaviour must equal that of the arena without any limit
    pub huge_limit: bool,
}

pub struct Consts {
    /// measured per-chunk bookkeeping overhead
    pub k: usize,
}

pub fn measure_consts() -> Consts {
    // K = distance from where bumpalo says the allocated region of a fresh chunk ends to the
    // end of the block the allocator handed out
    simalloc::begin_run(simalloc::Placement::Fixed(0));
    let mut k = 0;
    let mut sentinel = 0usize;
    let r = simalloc::arena_call(7, || {
        let b = Bump::<1>::with_capacity(1);
        let (p, len) = unsafe { b.iter_allocated_chunks_raw().next().unwrap() };
        let end = p as usize + len;
        let fresh = Bump::<1>::new();
        let z = fresh.alloc_layout(Layout::from_size_align(0, 1).unwrap());
        (end, z.as_ptr() as usize, b)
    });
    if let Ok((end, z, b)) = r {
        let mut held = Vec::new();
        simalloc::held(7, &mut held);
        if let Some(e) = held.first() {
            k = e.user + e.size - end;
        }
        sentinel = z;
        let _ = simalloc::arena_call(7, move || drop(b));
    }
    let mut ev = Vec::new();
    simalloc::take_events(&mut ev);
    simalloc::end_run();
    simalloc::set_sentinel(sentinel);
    Consts { k }
}

pub struct RunReport {
    pub violations: Vec<Violation>,
    pub side: Vec<Violation>,
    pub trace: Vec<TraceItem>,
    pub stats: Stats,
    pub fp: u64,
    /// number of chunk requests the arena made (granted or not)
    pub requests: u32,
    pub request_sizes: Vec<usize>,
}

pub struct Exec<'s, const M: usize> {
    pub script: &'s W1Script,
    pub opts: ExecOpts,
    pub k: usize,
    pub bump: Option<Bump<M>>,
    pub blocks: BTreeMap<usize, Block>,
    /// addresses of raw (deallocatable) live blocks in allocation order
    pub raw_order: Vec<usize>,
    /// addresses of all live non-zero blocks in allocation order
    pub order: Vec<usize>,
    pub held: Vec<Entry>,
    pub events: Vec<Event>,
    pub limit: Option<usize>,
    pub viol: Vec<Violation>,
    /// non-fatal violations of properties other than the one in focus
    pub side: Vec<Violation>,
    pub trace: Vec<TraceItem>,
    pub stats: Stats,
    pub fp: Fp,
    pub cur: usize,
    pub cur_kind: &'static str,
    /// per chunk (req_idx) -> list of (addr, size) allocated since last reset, in order
    pub per_chunk: BTreeMap<u32, Vec<(usize, usize)>>,
    /// uniform mode still exact (no op broke the premise)
    pub uniform_ok: bool,
    pub in_handover: bool,
    pub request_sizes: Vec<usize>,
    /// reqs of the current op (filled by post)
    pub op_reqs: Vec<(usize, bool)>,
    pub op_place: Option<(u32, usize)>,
    pub just_reset: bool,
    /// slot size to record for C10 instead of the block size (Result<T,E> slots)
    pub next_slot: Option<usize>,
    /// (size, align) on which "conservatively fits" is judged instead of the block's own
    pub fit_override: Option<(usize, usize)>,
    /// model of bytes the allocation-limit op saw
    pub ops_done: usize,
    /// (chunk_capacity right after the last reset/constructor, was it a reset)
    pub clean_cc: Option<(usize, bool)>,
    /// the next block is a field inside a larger slot (T inside Result<T,E>): only its own
    /// alignment is promised, not the arena minimum
    pub interior_ok: bool,
    pub slot_fit: Option<(usize, usize)>,
    pub pos: usize,
    /// a reset happened after the current limit was set (C06: "keeps its allocation limit")
    pub reset_since_limit_set: bool,
    /// an inconsistency of the harness's own bookkeeping seen during the step; reported at the end
    /// of the step unless the step's oracles find the violation that explains it (a tree that
    /// writes outside its chunks can corrupt the harness's statics too)
    pub harness_note: Option<&'static str>,
}

pub enum CallOut<R> {
    Ret(R),
    Panic(PanicClass, String),
}

fn round_up(n: usize, a: usize) -> usize {
    (n + (a - 1)) & !(a - 1)
}
fn round_down(n: usize, a: usize) -> usize {
    n & !(a - 1)
}

pub fn make_val<T: Copy>(seed: u32) -> T {
    let mut v = std::mem::MaybeUninit::<T>::uninit();
    let p = v.as_mut_ptr() as *mut u8;
    for k in 0..std::mem::size_of::<T>() {
        unsafe { *p.add(k) = pat(seed, k) };
    }
    unsafe { v.assume_init() }
}

impl<'s, const M: usize> Exec<'s, M> {
    pub fn new(script: &'s W1Script, opts: ExecOpts, k: usize) -> Self {
        Exec {
            script,
            opts,
            k,
            bump: None,
            blocks: BTreeMap::new(),
            raw_order: Vec::new(),
            order: Vec::new(),
            held: Vec::new(),
            events: Vec::new(),
            limit: None,
            viol: Vec::new(),
            side: Vec::new(),
            trace: Vec::new(),
            stats: Stats::default(),
            fp: Fp::new(),
            cur: 0,
            cur_kind: "ctor",
            per_chunk: BTreeMap::new(),
            uniform_ok: true,
            in_handover: false,
            request_sizes: Vec::new(),
            op_reqs: Vec::new(),
            op_place: None,
            just_reset: false,
            next_slot: None,
            fit_override: None,
            ops_done: 0,
            clean_cc: None,
            interior_ok: false,
            slot_fit: None,
            pos: 0,
            reset_since_limit_set: false,
            harness_note: None,
        }
    }

    /// Violations of a property other than the one in focus that do not make the arena state
    /// untrustworthy are recorded on the side and the run continues, so that a finding of one
    /// property does not mask another property's oracle later in the same history.
    fn is_fatal(prop: &str, oracle: &str) -> bool {
        matches!(prop, "C01" | "C03" | "HARNESS")
            || matches!(
                oracle,
                "try-method-panicked" | "method-panicked-internally" | "unbounded-allocator-retries" | "alignment-assertion"
            )
    }

    pub fn violate(&mut self, prop: &str, oracle: &str, facts: &str, detail: String) {
        if let Some(focus) = self.opts.focus {
            if focus != prop && !Self::is_fatal(prop, oracle) {
                if self.side.len() < 8 {
                    let sig = if facts.is_empty() { format!("{}/{}", prop, oracle) } else { format!("{}/{}/{}", prop, oracle, facts) };
                    if !self.side.iter().any(|v| v.sig == sig) {
                        self.side.push(Violation { prop: prop.to_string(), sig, op: self.cur_kind.to_string(), at: self.cur, detail });
                    }
                }
                return;
            }
        }
        let sig = if facts.is_empty() {
            format!("{}/{}", prop, oracle)
        } else {
            format!("{}/{}/{}", prop, oracle, facts)
        };
        self.viol.push(Violation {
            prop: prop.to_string(),
            sig,
            op: self.cur_kind.to_string(),
            at: self.cur,
            detail,
        });
    }

    /// call into bumpalo on behalf of this arena
    pub fn call<R>(&mut self, f: impl FnOnce(&Bump<M>) -> R) -> CallOut<R> {
        let b = self.bump.as_ref().expect("arena present");
        match simalloc::arena_call(self.opts.arena, || f(b)) {
            Ok(r) => CallOut::Ret(r),
            Err(p) => {
                let msg = panic_message(&p);
                {
                    let _g = simalloc::harness_scope();
                    drop(p);
                }
                CallOut::Panic(classify_panic(&msg), msg)
            }
        }
    }

    pub fn cc(&self) -> usize {
        self.bump.as_ref().map(|b| b.chunk_capacity()).unwrap_or(0)
    }

    pub fn held_sum(&self) -> usize {
        self.held.iter().map(|e| e.size).sum()
    }

    /// A request of (size, align) certainly fits in the space left (DESIGN §4).
    pub fn conservatively_fits(&self, size: usize, align: usize, cc: usize) -> bool {
        if align <= M {
            // the bump pointer is a multiple of MIN_ALIGN, so such a request fits exactly when its
            // size rounded up to MIN_ALIGN does (no slack needed)
            return match size.checked_add(M - 1) {
                None => false,
                Some(_) => round_up(size, M) <= cc,
            };
        }
        let a = align.max(M);
        match size.checked_add(a - 1) {
            None => false,
            Some(_) => {
                let s = round_up(size, a);
                s.checked_add(a - 1).map(|t| t <= cc).unwrap_or(false)
            }
        }
    }

    /// Process allocator events of the op just executed: update the chunk view and evaluate
    /// the ledger oracles (C03, C07, C08, anomalies). `freeing` says whether the op is allowed
    /// to return chunks ("reset" / "drop").
    pub fn post(&mut self, freeing: Option<&'static str>) {
        self.events.clear();
        simalloc::take_events(&mut self.events);
        self.op_reqs.clear();
        let events = std::mem::take(&mut self.events);
        if std::env::var_os("BUMPSIM_DEBUG").is_some() {
            eprintln!("op {} {}: events {:?}", self.cur, self.cur_kind, events);
        }
        let arena = self.opts.arena;
        let mut n_req = 0;
        let mut n_free = 0;
        for ev in &events {
            match *ev {
                Event::Request {
                    arena: a,
                    size,
                    align,
                    outcome,
                    entry,
                    ..
                } => {
                    if a != arena {
                        self.violate("C20", "foreign-request", "", format!("request attributed to arena {}", a));
                        continue;
                    }
                    n_req += 1;
                    self.request_sizes.push(size);
                    self.op_reqs.push((size, outcome == Refusal::Granted));
                    match outcome {
                        Refusal::Granted => {
                            self.stats.hit("chunk_granted");
                            // C18: a new block is at least as large as the last one unless a block
                            // of that size was refused by the allocator in this very call or the
                            // limit leaves no room for it
                            if let Some(last) = self.held.last().map(|e| e.size) {
                                if size + 64 < last {
                                    let refused_as_large = self.op_reqs.iter().any(|r| !r.1 && r.0 + 64 >= last);
                                    let limited = match self.limit {
                                        Some(l) => {
                                            let held_usable: usize = self.held.iter().map(|e| e.size.saturating_sub(self.k)).sum();
                                            l < 512 || l.saturating_sub(held_usable) < last
                                        }
                                        None => false,
                                    };
                                    if !refused_as_large && !limited {
                                        self.violate(
                                            "C18",
                                            "chunk-smaller-than-last-although-permitted",
                                            "",
                                            format!("new chunk {} after {} (limit {:?}, refused in this call: {:?})", size, last, self.limit, self.op_reqs),
                                        );
                                    }
                                }
                            }
                            // C07(1): bytes held for allocation never exceed the limit
                            if let Some(l) = self.limit {
                                let held_usable: usize =
                                    self.held.iter().map(|e| e.size.saturating_sub(self.k)).sum();
                                let new_usable = size.saturating_sub(self.k);
                                self.stats.hit("limit_decision_granted");
                                if held_usable + new_usable > l {
                                    let facts = if held_usable > l { "held-above-limit" } else { "held-within-limit" };
                                    if self.reset_since_limit_set {
                                        // the limit was in force before the reset and is no longer
                                        self.violate(
                                            "C06",
                                            "limit-not-enforced-after-reset",
                                            "",
                                            format!("limit {} set before a reset; afterwards a chunk of {} was granted on top of {} held", l, size, held_usable),
                                        );
                                    }
                                    self.violate(
                                        "C07",
                                        "chunk-over-limit",
                                        facts,
                                        format!(
                                            "limit {} held_usable {} new chunk {} (usable {})",
                                            l, held_usable, size, new_usable
                                        ),
                                    );
                                }
                            }
                            let e = simalloc::entry(entry);
                            if e.user % align != 0 {
                                // SimAlloc itself guarantees this; harness inconsistency
                                self.violate("HARNESS", "placement", "", String::new());
                            }
                            self.held.push(e);
                        }
                        Refusal::Plan => self.stats.hit("refusal_plan"),
                        Refusal::Exhaustion => self.stats.hit("refusal_exhaustion"),
                    }
                }
                Event::Free {
                    owner,
                    by,
                    entry,
                    layout_ok,
                } => {
                    n_free += 1;
                    let e = simalloc::entry(entry);
                    if owner != arena {
                        self.violate("C20", "freed-other-arenas-chunk", "", format!("owner {} by {}", owner, by));
                        continue;
                    }
                    if by != arena {
                        self.violate("C03", "free-outside-arena-call", "", format!("by {}", by));
                    }
                    if !layout_ok {
                        self.violate(
                            "C03",
                            "free-layout-mismatch",
                            "",
                            format!("chunk requested with ({}, {})", e.size, e.align),
                        );
                    }
                    if freeing.is_none() {
                        self.violate(
                            "C03",
                            "early-free",
                            "",
                            format!("chunk #{} freed during {}", e.req_idx, self.cur_kind),
                        );
                    }
                    self.held.retain(|h| h.user != e.user);
                }
                Event::Anomaly { kind, a, b } => {
                    let (prop, name) = match kind {
                        Anomaly::DoubleFree => ("C03", "double-free"),
                        Anomaly::FreeInsideLiveChunk => ("C03", "free-of-interior-pointer"),
                        Anomaly::FreeInsideFreedChunk => ("C03", "free-inside-freed-chunk"),
                        Anomaly::FreeSentinel => ("C03", "freed-static-sentinel"),
                        Anomaly::RedzoneBefore => ("C01", "write-before-chunk"),
                        Anomaly::RedzoneAfter => ("C01", "write-after-chunk-end"),
                        Anomaly::WriteAfterFree => ("C03", "write-after-free"),
                        Anomaly::UnboundedRetries => ("C09", "unbounded-allocator-retries"),
                        Anomaly::LedgerOverflow => ("HARNESS", "ledger-overflow"),
                        Anomaly::EventOverflow => ("HARNESS", "event-overflow"),
                    };
                    if prop == "HARNESS" {
                        self.harness_note = Some(name);
                        continue;
                    }
                    self.violate(prop, name, "", format!("a={} b={}", a, b));
                }
            }
        }
        self.events = events;
        if n_req > 0 {
            self.stats.hit("op_with_chunk_request");
        }
        if n_free > 0 {
            self.stats.hit("op_with_chunk_free");
        }
        self.fp.mix((n_req as u64) << 8 | n_free as u64);
        if !self.viol.is_empty() {
            return;
        }
        // C08: reported byte counts equal the ledger's view
        // the metadata query walks the chunk list (and checks its own invariants in debug builds):
        // on a corrupted arena it may panic, which must be a verdict, not the death of the worker
        let queried = match self.bump.as_ref() {
            Some(b) => simalloc::quiet_call(|| std::panic::catch_unwind(std::panic::AssertUnwindSafe(|| (b.allocated_bytes(), b.allocated_bytes_including_metadata())))).map_err(|p| {
                let m = panic_message(&p);
                let _g = simalloc::harness_scope();
                drop(p);
                m
            }),
            None => Ok((0, 0)),
        };
        if let Err(msg) = queried {
            let slug = msg_slug(&msg);
            if let Some(f) = self.opts.focus {
                if f != "C08" {
                    // whatever property this workload is about: the step left an arena whose own
                    // accounting query trips over its state
                    let kind = self.cur_kind;
                    self.violate(f, "arena-corrupt-after-step", kind, format!("allocated_bytes_including_metadata panicked: {}", msg));
                }
            }
            self.violate("C08", "accounting-query-panicked", &slug, msg);
            self.violate("C09", "method-panicked-internally", &slug, String::new());
            return;
        }
        if let (Some(_), Ok((ab, abim))) = (self.bump.as_ref(), queried) {
            let sum = self.held_sum();
            let n = self.held.len();
            let when = if self.just_reset { "after-reset" } else { "steady" };
            if abim != sum {
                self.violate(
                    "C08",
                    "including-metadata-vs-ledger",
                    when,
                    format!("reported {} ledger {} chunks {}", abim, sum, n),
                );
            } else if ab != sum - self.k * n {
                self.violate(
                    "C08",
                    "bytes-vs-ledger",
                    when,
                    format!("reported {} ledger {} - {}*{}", ab, sum, self.k, n),
                );
            }
        }
    }

    /// push the trace item of the op just executed
    pub fn trace_push(&mut self, out: Out) {
        let (ab, cc) = match self.bump.as_ref() {
            Some(b) => (b.allocated_bytes(), b.chunk_capacity()),
            None => (0, 0),
        };
        self.fp.mix(crate::rng::fnv(self.cur_kind) ^ out as u64);
        self.fp.mix((ab as u64) ^ ((cc as u64) << 24) ^ self.op_place.map(|p| ((p.0 as u64) << 48) ^ ((p.1 as u64) << 8)).unwrap_or(1));
        self.trace.push(TraceItem {
            kind: self.cur_kind,
            out,
            place: self.op_place.take(),
            reqs: self.op_reqs.clone(),
            ab,
            cc,
        });
    }

    pub fn chunk_of(&self, addr: usize, size: usize) -> Option<&Entry> {
        self.held
            .iter()
            .find(|e| addr >= e.user && addr.wrapping_add(size) <= e.user + e.size && addr.wrapping_add(size) >= addr)
    }

    /// A block was handed out: C01 (non-null, in bounds, outside bookkeeping, disjoint) and
    /// C04 (alignment). Registers it as live.
    pub fn on_block(&mut self, addr: usize, size: usize, align: usize, expect: Expect, raw: bool) -> bool {
        if addr == 0 {
            self.violate("C01", "null-pointer", "", String::new());
            return false;
        }
        if addr % align != 0 {
            let facts = if self.held.is_empty() { "chunkless" } else { "requested" };
            self.violate("C04", "misaligned-for-request", facts, format!("addr%{}={} size {}", align, addr % align, size));
            return false;
        }
        if addr % M != 0 && !self.interior_ok {
            let facts = if self.held.is_empty() { "chunkless" } else { "min" };
            self.violate("C04", "misaligned-for-min-align", facts, format!("addr%{}={} size {} align {}", M, addr % M, size, align));
            return false;
        }
        if let Some(ua) = self.script.uniform {
            // C10's exactness premise: same alignment, size a multiple of it (checked here for every
            // block, so that a script may have a non-uniform past before a reset)
            let slot = self.next_slot.unwrap_or(size);
            if (size == 0 && align > ua) || (size != 0 && (align != ua || slot % ua != 0)) {
                if self.uniform_ok {
                    self.stats.hit("uniform_premise_broken_until_reset");
                }
                self.uniform_ok = false;
            }
        }
        if size == 0 {
            self.stats.hit("zero_sized_block");
            if self.held.is_empty() {
                self.stats.hit("zero_sized_on_chunkless_arena");
            }
            return true;
        }
        let (cuser, csize, creq) = match self.chunk_of(addr, size) {
            Some(e) => (e.user, e.size, e.req_idx),
            None => {
                self.violate(
                    "C01",
                    "outside-held-memory",
                    "",
                    format!("block of {} bytes not inside any of {} held chunks", size, self.held.len()),
                );
                return false;
            }
        };
        if addr + size > cuser + csize - self.k {
            self.violate(
                "C01",
                "inside-bookkeeping",
                "",
                format!("block end is {} bytes into the footer", addr + size - (cuser + csize - self.k)),
            );
            return false;
        }
        if let Some((&pa, pb)) = self.blocks.range(..=addr).next_back() {
            if pa + pb.size > addr {
                let kept = pb.kept_by_init;
                let pbsize = pb.size;
                if raw && self.opts.focus == Some("C12") {
                    self.violate("C12", "overlaps-live-block", "", format!("block from the Allocator interface overlaps a live block of {} bytes", pbsize));
                }
                self.violate("C01", "overlap", "", format!("new block overlaps a live block of {} bytes at offset {}", pbsize, addr - pa));
                if kept {
                    self.violate("C11", "block-kept-by-initialiser-handed-out-again", "", "a block the failing initialiser allocated and kept overlaps a later allocation".into());
                }
                return false;
            }
        }
        if let Some((&na, nb)) = self.blocks.range(addr..).next() {
            if na < addr + size {
                let kept = nb.kept_by_init;
                let detail = format!("new block of {} bytes at chunk offset {} runs into a live block of {} bytes at chunk offset {} (align {})", size, addr - cuser, nb.size, na.wrapping_sub(cuser), nb.align);
                if kept {
                    self.violate("C11", "block-kept-by-initialiser-handed-out-again", "", "a block the failing initialiser allocated and kept overlaps a later allocation".into());
                }
                if raw && self.opts.focus == Some("C12") {
                    self.violate("C12", "overlaps-live-block", "", "block from the Allocator interface runs into a live block".into());
                }
                self.violate("C01", "overlap", "", detail);
                return false;
            }
            if false {
                self.violate("C01", "overlap", "", format!("new block of {} bytes at chunk offset {} runs into a live block of {} bytes at chunk offset {} (align {})", size, addr - cuser, nb.size, na.wrapping_sub(cuser), nb.align));
                return false;
            }
        }
        self.op_place = Some((creq, addr - cuser));
        let slot = self.next_slot.take().unwrap_or(size);
        if self.script.uniform.is_some() {
            self.per_chunk.entry(creq).or_default().push((addr, slot));
        }
        self.blocks.insert(
            addr,
            Block {
                size,
                align,
                expect,
                raw,
                chunk: creq,
                kept_by_init: false,
            },
        );
        self.order.push(addr);
        if raw {
            self.raw_order.push(addr);
        }
        true
    }

    pub fn forget_block(&mut self, addr: usize) {
        self.blocks.remove(&addr);
        self.order.retain(|&a| a != addr);
        self.raw_order.retain(|&a| a != addr);
    }

    pub fn fill_pat(&self, addr: usize, size: usize, seed: u32) {
        let p = addr as *mut u8;
        for k in 0..size {
            unsafe { *p.add(k) = pat(seed, k) };
        }
    }

    /// compare block contents with an expectation over the first `n` bytes
    pub fn bytes_match(addr: usize, n: usize, expect: &Expect) -> Option<usize> {
        let p = addr as *const u8;
        match expect {
            Expect::Pat(seed) => {
                for k in 0..n {
                    if unsafe { *p.add(k) } != pat(*seed, k) {
                        return Some(k);
                    }
                }
                None
            }
            Expect::Bytes(v) => {
                for k in 0..n.min(v.len()) {
                    if unsafe { *p.add(k) } != v[k] {
                        return Some(k);
                    }
                }
                None
            }
            Expect::Opaque => None,
        }
    }

    /// C02: every live block still holds what the caller put there; red zones intact.
    pub fn checkpoint(&mut self) {
        self.stats.hit("checkpoint");
        let mut bad: Option<(usize, usize, usize)> = None;
        for (&a, b) in &self.blocks {
            if let Some(k) = Self::bytes_match(a, b.size, &b.expect) {
                bad = Some((a, b.size, k));
                break;
            }
        }
        if let Some((_, size, k)) = bad {
            self.violate(
                "C02",
                "live-block-changed",
                "",
                format!("byte {} of a live {}-byte block changed", k, size),
            );
            return;
        }
        if let Some((a, _)) = simalloc::check_redzones() {
            let name = if a == Anomaly::RedzoneBefore { "write-before-chunk" } else { "write-after-chunk-end" };
            self.violate("C01", name, "", String::new());
        }
    }

    /// Map the outcome of an allocation-family call to the trace class; unexpected panics are
    /// attributed (DESIGN §13.3).
    pub fn classify<R>(&mut self, fallible: bool, r: CallOut<Result<R, ()>>) -> (Out, Option<R>) {
        match r {
            CallOut::Ret(Ok(v)) => (Out::Ok, Some(v)),
            CallOut::Ret(Err(())) => (Out::AllocFail, None),
            CallOut::Panic(PanicClass::Oom, msg) => {
                if fallible {
                    self.violate("C09", "try-method-panicked", "oom", msg);
                    (Out::Panic, None)
                } else {
                    (Out::AllocFail, None)
                }
            }
            CallOut::Panic(PanicClass::Injected, _) => (Out::Panic, None),
            CallOut::Panic(PanicClass::Other, msg) => {
                let slug = msg_slug(&msg);
                if msg.contains("aligned") {
                    let facts = if self.held.is_empty() { "chunkless" } else { "assertion" };
                    self.violate("C04", "alignment-assertion", facts, msg);
                } else {
                    if msg.contains("should be in range") || msg.contains("less than or equal to") {
                        self.violate("C01", "pointer-range-assertion", &slug, msg.clone());
                    }
                    let oracle = if fallible { "try-method-panicked" } else { "method-panicked-internally" };
                    self.violate("C09", oracle, &slug, msg);
                }
                (Out::Panic, None)
            }
        }
    }
}
