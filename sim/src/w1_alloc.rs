//! W1 op handlers, part 1: the allocation families.

use crate::common::*;
use crate::simalloc::{self, harness_scope};
use crate::track::{self, Tr};
use crate::w1::*;
use crate::w1_ops::*;
use allocator_api2::alloc::Allocator;
use bumpalo::{AllocOrInitError, Bump};
use std::alloc::Layout;
use std::cell::Cell;
use std::mem::{align_of, size_of};

pub trait ErrVal: 'static {
    fn new(id: u32) -> Self;
    fn id(&self) -> u32;
}
impl ErrVal for Tr<0> {
    fn new(id: u32) -> Self {
        Tr::new(id, 0xE)
    }
    fn id(&self) -> u32 {
        self.id
    }
}
#[repr(C)]
pub struct BigErr {
    t: Tr<0>,
    pad: [u64; 63],
}
impl ErrVal for BigErr {
    fn new(id: u32) -> Self {
        BigErr {
            t: Tr::new(id, 0xE),
            pad: [7; 63],
        }
    }
    fn id(&self) -> u32 {
        self.t.id
    }
}
#[repr(C, align(64))]
pub struct AlignedErr {
    t: Tr<0>,
}
impl ErrVal for AlignedErr {
    fn new(id: u32) -> Self {
        AlignedErr { t: Tr::new(id, 0xE) }
    }
    fn id(&self) -> u32 {
        self.t.id
    }
}

#[repr(C, align(256))]
pub struct Aligned256Err {
    t: Tr<0>,
}
impl ErrVal for Aligned256Err {
    fn new(id: u32) -> Self {
        Aligned256Err { t: Tr::new(id, 0xE) }
    }
    fn id(&self) -> u32 {
        self.t.id
    }
}

pub fn bytes_of<T>(v: &[T]) -> Vec<u8> {
    let n = std::mem::size_of_val(v);
    unsafe { std::slice::from_raw_parts(v.as_ptr() as *const u8, n) }.to_vec()
}

/// iterator that may misreport its length
pub struct LyingIter<T: Copy> {
    pub claim: usize,
    pub yields: usize,
    pub yielded: usize,
    pub seed: u32,
    pub _p: std::marker::PhantomData<T>,
}
impl<T: Copy> Iterator for LyingIter<T> {
    type Item = T;
    fn next(&mut self) -> Option<T> {
        let _g = harness_scope();
        if self.yielded >= self.yields {
            return None;
        }
        let v = make_val::<T>(self.seed.wrapping_add(self.yielded as u32));
        self.yielded += 1;
        Some(v)
    }
    fn size_hint(&self) -> (usize, Option<usize>) {
        let r = self.claim.saturating_sub(self.yielded);
        (r, Some(r))
    }
}
impl<T: Copy> ExactSizeIterator for LyingIter<T> {}

enum R3<E> {
    Ok(usize),
    Init(E),
    Alloc,
}

impl<'s, const M: usize> Exec<'s, M> {
    /// Common tail of every allocation-family op.
    /// Returns true if the block was handed out and registered.
    pub fn alloc_done(
        &mut self,
        fallible: bool,
        out: Out,
        addr: Option<usize>,
        size: usize,
        align: usize,
        expect: Expect,
        raw: bool,
        cc0: usize,
    ) -> bool {
        self.post(None);
        if !self.viol.is_empty() {
            self.trace_push(out);
            return false;
        }
        let made_request = !self.op_reqs.is_empty();
        let (fs, fa) = self.fit_override.unwrap_or((size, align));
        let fits = self.conservatively_fits(fs, fa, cc0);
        let mut registered = false;
        match out {
            Out::Ok => {
                let a = addr.unwrap();
                if made_request {
                    self.stats.hit("alloc_slow_path");
                    if self.op_reqs.len() > 1 {
                        self.stats.hit("alloc_halving_retry");
                    }
                    if fits {
                        self.violate(
                            "C18",
                            "fitting-request-needed-new-chunk",
                            "",
                            format!("size {} align {} chunk_capacity {}", size, align, cc0),
                        );
                    }
                } else {
                    self.stats.hit("alloc_fast_path");
                }
                if self.viol.is_empty() {
                    registered = self.on_block(a, size, align, expect.clone(), raw);
                }
                if registered && size > 0 {
                    if raw {
                        if let Expect::Pat(seed) = expect {
                            self.fill_pat(a, size, seed);
                        }
                    } else if let Some(k) = Self::bytes_match(a, size, &expect) {
                        self.violate(
                            "C02",
                            "wrong-initial-contents",
                            "",
                            format!("byte {} of {} differs right after the call", k, size),
                        );
                    }
                }
            }
            Out::AllocFail => {
                self.stats.hit("alloc_failed");
                if self.limit.is_some() {
                    self.stats.hit("alloc_failed_under_limit");
                }
                if fallible {
                    self.stats.hit("fallible_call_failed");
                }
                if fits {
                    let prop = if self.limit.is_some() { "C07" } else { "C18" };
                    self.violate(
                        prop,
                        "fitting-request-failed",
                        "",
                        format!("size {} align {} chunk_capacity {} limit {:?}", size, align, cc0, self.limit),
                    );
                }
                if self.op_reqs.iter().any(|r| r.1) {
                    self.violate(
                        "C09",
                        "failed-call-changed-held-memory",
                        "",
                        format!("requests during failed call: {:?}", self.op_reqs),
                    );
                }
                if self.viol.is_empty() {
                    self.fail_probe();
                }
            }
            _ => {}
        }
        let _ = fallible;
        self.trace_push(out);
        registered
    }

    /// C09: after a failed call live blocks are intact and a request that fits still succeeds
    /// without allocator traffic. State-neutral (the probe block is released again).
    pub fn fail_probe(&mut self) {
        self.checkpoint();
        if self.opts.no_fail_probe || !self.viol.is_empty() {
            return;
        }
        let cc = self.cc();
        let n = cc.min(8 * M);
        if n == 0 {
            return;
        }
        self.stats.hit("fail_probe");
        let layout = Layout::from_size_align(n, 1).unwrap();
        let r = self.call(|b| {
            let p = b.try_alloc_layout(layout);
            if let Ok(p) = p {
                unsafe { (&b).deallocate(p, layout) };
            }
            p.is_ok()
        });
        let saved = self.op_reqs.clone();
        self.post(None);
        let probe_reqs = std::mem::replace(&mut self.op_reqs, saved);
        match r {
            CallOut::Ret(true) => {
                if !probe_reqs.is_empty() {
                    self.violate("C09", "fitting-request-after-failure-asked-allocator", "", String::new());
                } else if self.cc() != cc {
                    // not a stated property; keep the twin traces honest instead of alarming
                    self.stats.hit("fail_probe_not_neutral");
                }
            }
            CallOut::Ret(false) => {
                self.violate(
                    "C09",
                    "fitting-request-after-failure-failed",
                    "",
                    format!("{} bytes with chunk_capacity {}", n, cc),
                );
            }
            CallOut::Panic(_, msg) => {
                self.violate("C09", "try-method-panicked", "probe", msg);
            }
        }
    }

    pub fn op_val<T: Copy + 'static>(&mut self, fl: VFl, seed: u32) {
        let fl = if self.opts.infallible_twin {
            match fl {
                VFl::TryAlloc => VFl::Alloc,
                VFl::TryWith => VFl::With,
                f => f,
            }
        } else {
            fl
        };
        let fallible = matches!(fl, VFl::TryAlloc | VFl::TryWith);
        let (size, align) = (size_of::<T>(), align_of::<T>());
        let cc0 = self.cc();
        let v: T = make_val(seed);
        let calls = Cell::new(0u32);
        let r = self.call(|b| match fl {
            VFl::Alloc => Ok(b.alloc(v) as *mut T as usize),
            VFl::TryAlloc => b.try_alloc(v).map(|r| r as *mut T as usize).map_err(|_| ()),
            VFl::With => Ok(b.alloc_with(|| {
                calls.set(calls.get() + 1);
                v
            }) as *mut T as usize),
            VFl::TryWith => b
                .try_alloc_with(|| {
                    calls.set(calls.get() + 1);
                    v
                })
                .map(|r| r as *mut T as usize)
                .map_err(|_| ()),
        });
        let (out, addr) = self.classify(fallible, r);
        let expect = Expect::Bytes(bytes_of(std::slice::from_ref(&v)));
        if matches!(fl, VFl::With | VFl::TryWith) && self.viol.is_empty() {
            let want = if out == Out::Ok { 1 } else { 0 };
            if calls.get() != want && out != Out::Panic {
                self.violate(
                    "C02",
                    "initialiser-call-count",
                    "",
                    format!("called {} times, outcome {:?}", calls.get(), out),
                );
            }
        }
        self.alloc_done(fallible, out, addr, size, align, expect, false, cc0);
    }

    pub fn op_layout(&mut self, try_: bool, size: usize, align: usize, seed: u32) {
        let try_ = try_ && !self.opts.infallible_twin;
        let layout = match Layout::from_size_align(size, align) {
            Ok(l) => l,
            Err(_) => {
                self.trace_push(Out::Skipped);
                return;
            }
        };
        let cc0 = self.cc();
        let r = self.call(|b| {
            if try_ {
                b.try_alloc_layout(layout).map(|p| p.as_ptr() as usize).map_err(|_| ())
            } else {
                Ok(b.alloc_layout(layout).as_ptr() as usize)
            }
        });
        let (out, addr) = self.classify(try_, r);
        self.alloc_done(try_, out, addr, size, align, Expect::Pat(seed), true, cc0);
    }

    pub fn op_slice_copy<T: Copy + 'static>(&mut self, try_: bool, len: usize, seed: u32) {
        let try_ = try_ && !self.opts.infallible_twin;
        let src: Vec<T> = (0..len).map(|i| make_val::<T>(seed.wrapping_add(i as u32))).collect();
        let cc0 = self.cc();
        let r = self.call(|b| {
            if try_ {
                b.try_alloc_slice_copy(&src)
                    .map(|s| (s.as_ptr() as usize, s.len()))
                    .map_err(|_| ())
            } else {
                let s = b.alloc_slice_copy(&src);
                Ok((s.as_ptr() as usize, s.len()))
            }
        });
        let (out, res) = self.classify(try_, r);
        self.slice_done::<T>(try_, out, res, len, Expect::Bytes(bytes_of(&src)), cc0);
    }

    fn slice_done<T>(
        &mut self,
        fallible: bool,
        out: Out,
        res: Option<(usize, usize)>,
        len: usize,
        expect: Expect,
        cc0: usize,
    ) -> bool {
        if let Some((_, got)) = res {
            if got != len && self.viol.is_empty() {
                self.violate("C02", "slice-length", "", format!("asked {} got {}", len, got));
            }
        }
        self.alloc_done(
            fallible,
            out,
            res.map(|r| r.0),
            size_of::<T>().wrapping_mul(len),
            align_of::<T>(),
            expect,
            false,
            cc0,
        )
    }

    pub fn op_fill_with<T: Copy + 'static>(&mut self, try_: bool, len: usize, seed: u32) {
        let try_ = try_ && !self.opts.infallible_twin;
        let cc0 = self.cc();
        let mut idx: Vec<usize> = Vec::with_capacity(len.min(1 << 16));
        let r = {
            let idx = &mut idx;
            self.call(move |b| {
                let f = |i: usize| {
                    let _g = harness_scope();
                    idx.push(i);
                    make_val::<T>(seed.wrapping_add(i as u32))
                };
                if try_ {
                    b.try_alloc_slice_fill_with(len, f)
                        .map(|s| (s.as_ptr() as usize, s.len()))
                        .map_err(|_| ())
                } else {
                    let s = b.alloc_slice_fill_with(len, f);
                    Ok((s.as_ptr() as usize, s.len()))
                }
            })
        };
        let (out, res) = self.classify(try_, r);
        if self.viol.is_empty() {
            let ok = if out == Out::Ok {
                idx.len() == len && idx.iter().enumerate().all(|(i, &j)| i == j)
            } else {
                idx.is_empty() || out == Out::Panic
            };
            if !ok {
                self.violate(
                    "C02",
                    "initialiser-call-order",
                    "",
                    format!("len {} calls {:?}...", len, &idx[..idx.len().min(8)]),
                );
            }
        }
        let src: Vec<T> = (0..len).map(|i| make_val::<T>(seed.wrapping_add(i as u32))).collect();
        self.slice_done::<T>(try_, out, res, len, Expect::Bytes(bytes_of(&src)), cc0);
    }

    pub fn op_fill_copy<T: Copy + 'static>(&mut self, try_: bool, len: usize, seed: u32) {
        let try_ = try_ && !self.opts.infallible_twin;
        let cc0 = self.cc();
        let v: T = make_val(seed);
        let r = self.call(|b| {
            if try_ {
                b.try_alloc_slice_fill_copy(len, v)
                    .map(|s| (s.as_ptr() as usize, s.len()))
                    .map_err(|_| ())
            } else {
                let s = b.alloc_slice_fill_copy(len, v);
                Ok((s.as_ptr() as usize, s.len()))
            }
        });
        let (out, res) = self.classify(try_, r);
        let src: Vec<T> = (0..len).map(|_| v).collect();
        self.slice_done::<T>(try_, out, res, len, Expect::Bytes(bytes_of(&src)), cc0);
    }

    /// check a block of tracked elements: tags as expected, ids live and pairwise distinct
    fn check_tracked_block(&mut self, addr: usize, tags: &[u32]) {
        let p = addr as *const u32;
        let mut ids = Vec::with_capacity(tags.len());
        for (i, &t) in tags.iter().enumerate() {
            let (id, tag) = unsafe { (*p.add(2 * i), *p.add(2 * i + 1)) };
            if tag != t {
                self.violate("C02", "wrong-initial-contents", "tracked", format!("element {} tag {} want {}", i, tag, t));
                return;
            }
            ids.push(id);
        }
        let bad = track::ledger(|l| ids.iter().position(|&id| l.get(0, id) != 1));
        if let Some(i) = bad {
            self.violate("C02", "wrong-initial-contents", "tracked-id", format!("element {} is not a live value", i));
            return;
        }
        ids.sort_unstable();
        if ids.windows(2).any(|w| w[0] == w[1]) {
            self.violate("C02", "wrong-initial-contents", "duplicate", String::new());
        }
    }

    pub fn op_slice_clone(&mut self, try_: bool, len: usize, seed: u32) {
        let try_ = try_ && !self.opts.infallible_twin;
        let cc0 = self.cc();
        let src: Vec<Tr<0>> = (0..len).map(|i| Tr::new(track::fresh_id(), seed.wrapping_add(i as u32) % 5)).collect();
        track::clone_log_start();
        let r = self.call(|b| {
            if try_ {
                b.try_alloc_slice_clone(&src)
                    .map(|s| (s.as_ptr() as usize, s.len()))
                    .map_err(|_| ())
            } else {
                let s = b.alloc_slice_clone(&src);
                Ok((s.as_ptr() as usize, s.len()))
            }
        });
        let log = track::clone_log_take();
        let (out, res) = self.classify(try_, r);
        if self.viol.is_empty() {
            let want: Vec<u32> = if out == Out::Ok { src.iter().map(|t| t.id).collect() } else { Vec::new() };
            if log != want && out != Out::Panic {
                self.violate("C02", "clone-call-order", "", format!("cloned {:?} want {:?}", &log[..log.len().min(8)], &want[..want.len().min(8)]));
            }
        }
        let tags: Vec<u32> = src.iter().map(|t| t.tag).collect();
        if self.slice_done::<Tr<0>>(try_, out, res, len, Expect::Opaque, cc0) && self.viol.is_empty() {
            self.check_tracked_block(res.unwrap().0, &tags);
        }
        drop(src);
    }

    pub fn op_fill_clone(&mut self, try_: bool, len: usize, seed: u32) {
        let try_ = try_ && !self.opts.infallible_twin;
        let cc0 = self.cc();
        let v = Tr::<0>::new(track::fresh_id(), seed % 7);
        track::clone_log_start();
        let r = self.call(|b| {
            if try_ {
                b.try_alloc_slice_fill_clone(len, &v)
                    .map(|s| (s.as_ptr() as usize, s.len()))
                    .map_err(|_| ())
            } else {
                let s = b.alloc_slice_fill_clone(len, &v);
                Ok((s.as_ptr() as usize, s.len()))
            }
        });
        let log = track::clone_log_take();
        let (out, res) = self.classify(try_, r);
        if self.viol.is_empty() && out != Out::Panic {
            let want = if out == Out::Ok { len } else { 0 };
            if log.len() != want || log.iter().any(|&s| s != v.id) {
                self.violate("C02", "clone-call-count", "", format!("{} clones, want {}", log.len(), want));
            }
        }
        let tags = vec![v.tag; len];
        if self.slice_done::<Tr<0>>(try_, out, res, len, Expect::Opaque, cc0) && self.viol.is_empty() {
            self.check_tracked_block(res.unwrap().0, &tags);
        }
    }

    pub fn op_fill_default(&mut self, try_: bool, tracked: bool, len: usize) {
        let try_ = try_ && !self.opts.infallible_twin;
        let cc0 = self.cc();
        if tracked {
            let id0 = track::ledger(|l| l.max_id());
            let r = self.call(|b| {
                if try_ {
                    b.try_alloc_slice_fill_default::<Tr<0>>(len)
                        .map(|s| (s.as_ptr() as usize, s.len()))
                        .map_err(|_| ())
                } else {
                    let s = b.alloc_slice_fill_default::<Tr<0>>(len);
                    Ok((s.as_ptr() as usize, s.len()))
                }
            });
            let id1 = track::ledger(|l| l.max_id());
            let (out, res) = self.classify(try_, r);
            if self.viol.is_empty() && out != Out::Panic {
                let want = if out == Out::Ok { len } else { 0 };
                if (id1 - id0) as usize != want {
                    self.violate("C02", "default-call-count", "", format!("{} defaults, want {}", id1 - id0, want));
                }
            }
            let tags = vec![0u32; len];
            if self.slice_done::<Tr<0>>(try_, out, res, len, Expect::Opaque, cc0) && self.viol.is_empty() {
                self.check_tracked_block(res.unwrap().0, &tags);
            }
        } else {
            let r = self.call(|b| {
                if try_ {
                    b.try_alloc_slice_fill_default::<u32>(len)
                        .map(|s| (s.as_ptr() as usize, s.len()))
                        .map_err(|_| ())
                } else {
                    let s = b.alloc_slice_fill_default::<u32>(len);
                    Ok((s.as_ptr() as usize, s.len()))
                }
            });
            let (out, res) = self.classify(try_, r);
            self.slice_done::<u32>(try_, out, res, len, Expect::Bytes(vec![0u8; len.saturating_mul(4).min(1 << 24)]), cc0);
        }
    }

    /// element counts that cannot be satisfied: see `Op::HugeLen`
    pub fn op_huge_len(&mut self, entry: u8, try_: bool, len: usize) {
        let entry = entry % 7;
        let has_try = entry <= 4;
        let try_ = try_ && has_try && !self.opts.infallible_twin;
        let esize = if entry == 1 {
            2
        } else if entry == 2 {
            4
        } else {
            8
        };
        // only counts whose byte size is out of reach of the simulated machine
        let len = if (len as u128) * (esize as u128) < (1u128 << 36) { usize::MAX / esize + 2 } else { len };
        let cc0 = self.cc();
        let ran = Cell::new(false);
        let calls = Cell::new(0u32);
        // a wrongly accepted count gets a few elements written before the fill is stopped, so
        // that what the crate then does to its neighbours is seen by the live-block oracles too
        let init_ran = || -> u64 {
            let _g = harness_scope();
            ran.set(true);
            calls.set(calls.get() + 1);
            if calls.get() <= 6 {
                return 0xEEEE_EEEE_EEEE_EEEE;
            }
            std::panic::resume_unwind(Box::new("<injected>"))
        };
        let init_try = || -> Result<u64, ()> {
            let _g = harness_scope();
            ran.set(true);
            calls.set(calls.get() + 1);
            if calls.get() <= 6 {
                Ok(0xEEEE_EEEE_EEEE_EEEE)
            } else {
                Err(())
            }
        };
        struct Claim<'a, F: Fn() -> u64>(usize, &'a F);
        impl<'a, F: Fn() -> u64> Iterator for Claim<'a, F> {
            type Item = u64;
            fn next(&mut self) -> Option<u64> {
                Some((self.1)())
            }
            fn size_hint(&self) -> (usize, Option<usize>) {
                (self.0, Some(self.0))
            }
        }
        impl<'a, F: Fn() -> u64> ExactSizeIterator for Claim<'a, F> {}
        struct TryClaim<'a, F: Fn() -> Result<u64, ()>>(usize, &'a F);
        impl<'a, F: Fn() -> Result<u64, ()>> Iterator for TryClaim<'a, F> {
            type Item = Result<u64, ()>;
            fn next(&mut self) -> Option<Result<u64, ()>> {
                Some((self.1)())
            }
            fn size_hint(&self) -> (usize, Option<usize>) {
                (self.0, Some(self.0))
            }
        }
        impl<'a, F: Fn() -> Result<u64, ()>> ExactSizeIterator for TryClaim<'a, F> {}
        let never = || -> u64 { init_ran() };
        let r: CallOut<Result<(usize, usize), ()>> = self.call(|b| match (entry, try_) {
            (0, true) => b.try_alloc_slice_fill_with::<u64, _>(len, |_| init_ran()).map(|s| (s.as_ptr() as usize, s.len())).map_err(|_| ()),
            (0, false) => {
                let s = b.alloc_slice_fill_with::<u64, _>(len, |_| init_ran());
                Ok((s.as_ptr() as usize, s.len()))
            }
            (1, true) => b.try_alloc_slice_fill_copy::<u16>(len, 7).map(|s| (s.as_ptr() as usize, s.len())).map_err(|_| ()),
            (1, false) => {
                let s = b.alloc_slice_fill_copy::<u16>(len, 7);
                Ok((s.as_ptr() as usize, s.len()))
            }
            (2, true) => b.try_alloc_slice_fill_clone::<u32>(len, &7).map(|s| (s.as_ptr() as usize, s.len())).map_err(|_| ()),
            (2, false) => {
                let s = b.alloc_slice_fill_clone::<u32>(len, &7);
                Ok((s.as_ptr() as usize, s.len()))
            }
            (3, true) => b.try_alloc_slice_fill_default::<u64>(len).map(|s| (s.as_ptr() as usize, s.len())).map_err(|_| ()),
            (3, false) => {
                let s = b.alloc_slice_fill_default::<u64>(len);
                Ok((s.as_ptr() as usize, s.len()))
            }
            (4, true) => b.try_alloc_slice_fill_iter(Claim(len, &never)).map(|s| (s.as_ptr() as usize, s.len())).map_err(|_| ()),
            (4, false) => {
                let s = b.alloc_slice_fill_iter(Claim(len, &never));
                Ok((s.as_ptr() as usize, s.len()))
            }
            (5, _) => match b.alloc_slice_try_fill_with::<u64, _, ()>(len, |_| init_try()) {
                Ok(s) => Ok((s.as_ptr() as usize, s.len())),
                Err(()) => Ok((0, 0)),
            },
            _ => match b.alloc_slice_try_fill_iter::<u64, _, ()>(TryClaim(len, &init_try)) {
                Ok(s) => Ok((s.as_ptr() as usize, s.len())),
                Err(()) => Ok((0, 0)),
            },
        });
        self.stats.hit("huge_len_request");
        let (out, _res) = self.classify(try_, r);
        if ran.get() {
            self.violate("C01", "block-smaller-than-requested", "initialiser-ran", format!("entry {} len {}: no memory of that size exists, yet elements were being written", entry, len));
            self.violate("C19", "impossible-size-accepted", "initialiser-ran", format!("entry {} len {}", entry, len));
            if entry >= 5 {
                self.violate("C11", "initialiser-ran-without-space", "", format!("entry {} len {}", entry, len));
            }
        } else if out == Out::Ok {
            self.violate("C19", "impossible-size-accepted", "returned", format!("entry {} len {}", entry, len));
        }
        self.alloc_done(try_, if out == Out::Ok { Out::Panic } else { out }, None, usize::MAX, esize, Expect::Opaque, false, cc0);
    }

    pub fn op_fill_iter<T: Copy + 'static>(&mut self, try_: bool, len: usize, lie: i8, seed: u32) {
        let try_ = try_ && !self.opts.infallible_twin;
        let cc0 = self.cc();
        let yields = (len as i64 + lie as i64).max(0) as usize;
        let mut it = LyingIter::<T> {
            claim: len,
            yields,
            yielded: 0,
            seed,
            _p: std::marker::PhantomData,
        };
        let r = {
            let it = &mut it;
            self.call(move |b| {
                if try_ {
                    b.try_alloc_slice_fill_iter(it)
                        .map(|s| (s.as_ptr() as usize, s.len()))
                        .map_err(|_| ())
                } else {
                    let s = b.alloc_slice_fill_iter(it);
                    Ok((s.as_ptr() as usize, s.len()))
                }
            })
        };
        if let CallOut::Panic(PanicClass::Other, msg) = &r {
            if yields < len && msg.contains("too few") {
                // the documented panic for an iterator that under-delivers
                self.stats.hit("lying_iter_too_few_panicked");
                self.post(None);
                self.trace_push(Out::Panic);
                return;
            }
        }
        let (out, res) = self.classify(try_, r);
        if self.viol.is_empty() && out == Out::Ok {
            if yields < len {
                self.violate("C02", "short-iterator-accepted", "", format!("claimed {} yielded {}", len, yields));
            } else if it.yielded != len {
                self.violate("C02", "iterator-consumption", "", format!("claimed {} consumed {}", len, it.yielded));
            }
            if lie > 0 {
                self.stats.hit("lying_iter_too_many");
            }
        }
        let src: Vec<T> = (0..len).map(|i| make_val::<T>(seed.wrapping_add(i as u32))).collect();
        self.slice_done::<T>(try_, out, res, len, Expect::Bytes(bytes_of(&src)), cc0);
    }

    pub fn op_str(&mut self, try_: bool, len: usize, seed: u32) {
        let try_ = try_ && !self.opts.infallible_twin;
        let cc0 = self.cc();
        const CH: [char; 8] = ['a', 'Z', '0', 'é', 'ß', '€', '語', '😀'];
        let s: String = (0..len).map(|i| CH[(pat(seed, i) as usize >> 1) % CH.len()]).collect();
        let r = self.call(|b| {
            if try_ {
                b.try_alloc_str(&s).map(|r| (r.as_ptr() as usize, r.len())).map_err(|_| ())
            } else {
                let r = b.alloc_str(&s);
                Ok((r.as_ptr() as usize, r.len()))
            }
        });
        let (out, res) = self.classify(try_, r);
        self.slice_done::<u8>(try_, out, res, s.len(), Expect::Bytes(s.as_bytes().to_vec()), cc0);
    }

    /// run the initialiser's own arena activity; returns a kept block, if any
    fn inner_action(arena: u32, b: &Bump<M>, inner: Inner, seed: u32) -> Option<(usize, usize, usize, u32)> {
        match inner {
            Inner::Nothing => None,
            Inner::Keep { size, align } => {
                let l = Layout::from_size_align(size, align).ok()?;
                let g = simalloc::enter_arena(arena);
                let p = b.try_alloc_layout(l);
                drop(g);
                let p = p.ok()?.as_ptr() as usize;
                for k in 0..size {
                    unsafe { *(p as *mut u8).add(k) = pat(seed ^ 0x5a5a, k) };
                }
                Some((p, size, align, seed ^ 0x5a5a))
            }
            Inner::Release { size, align } => {
                let l = Layout::from_size_align(size, align).ok()?;
                let g = simalloc::enter_arena(arena);
                if let Ok(p) = b.try_alloc_layout(l) {
                    unsafe { (&b).deallocate(p, l) };
                }
                drop(g);
                None
            }
        }
    }

    pub fn op_try_with<T: Copy + 'static, E: ErrVal>(&mut self, try_: bool, fail: bool, inner: Inner, seed: u32) {
        let try_ = try_ && !self.opts.infallible_twin;
        let slot = Layout::new::<Result<T, E>>();
        let cc0 = self.cc();
        let arena = self.opts.arena;
        let v: T = make_val(seed);
        let err_id = track::fresh_id();
        let calls = Cell::new(0u32);
        let kept: Cell<Option<(usize, usize, usize, u32)>> = Cell::new(None);
        let r = self.call(|b| {
            let f = || {
                let _g = harness_scope();
                calls.set(calls.get() + 1);
                kept.set(Self::inner_action(arena, b, inner, seed));
                if fail {
                    Err(E::new(err_id))
                } else {
                    Ok(v)
                }
            };
            if try_ {
                match b.try_alloc_try_with(f) {
                    Ok(r) => R3::Ok(r as *mut T as usize),
                    Err(AllocOrInitError::Init(e)) => R3::Init(e),
                    Err(AllocOrInitError::Alloc(_)) => R3::Alloc,
                }
            } else {
                match b.alloc_try_with(f) {
                    Ok(r) => R3::Ok(r as *mut T as usize),
                    Err(e) => R3::Init(e),
                }
            }
        });
        // normalise
        let mut init_err: Option<E> = None;
        let r2 = match r {
            CallOut::Ret(R3::Ok(a)) => CallOut::Ret(Ok(a)),
            CallOut::Ret(R3::Alloc) => CallOut::Ret(Err(())),
            CallOut::Ret(R3::Init(e)) => {
                init_err = Some(e);
                CallOut::Ret(Ok(0usize))
            }
            CallOut::Panic(c, m) => CallOut::Panic(c, m),
        };
        let (mut out, addr) = self.classify(try_, r2);
        if init_err.is_some() {
            out = Out::InitErr;
        }
        // C11: the initialiser runs only if space was reserved, and exactly once
        if self.viol.is_empty() {
            match out {
                Out::AllocFail if calls.get() != 0 => {
                    self.violate("C11", "initialiser-ran-without-reservation", "", format!("{} calls", calls.get()));
                }
                Out::Ok | Out::InitErr if calls.get() != 1 => {
                    self.violate("C11", "initialiser-call-count", "", format!("{} calls", calls.get()));
                }
                _ => {}
            }
        }
        match out {
            Out::InitErr => {
                self.stats.hit("initialiser_failed");
                self.post(None);
                let new_chunk = !self.op_reqs.is_empty();
                if new_chunk {
                    self.stats.hit("initialiser_failed_in_new_chunk");
                } else {
                    self.stats.hit("initialiser_failed_in_current_chunk");
                }
                if let Some((p, size, align, s)) = kept.get() {
                    self.stats.hit("initialiser_kept_inner_block");
                    if self.viol.is_empty() && self.on_block(p, size, align, Expect::Pat(s), true) {
                        if let Some(b) = self.blocks.get_mut(&p) {
                            b.kept_by_init = true;
                        }
                    }
                }
                let e = init_err.take().unwrap();
                if self.viol.is_empty() {
                    self.check_error_delivery(e.id(), err_id);
                }
                {
                    let _g = harness_scope();
                    drop(e);
                }
                if self.viol.is_empty() {
                    let st = track::ledger(|l| (l.get(0, err_id), l.double_drops.len()));
                    if st.0 != 2 || st.1 != 0 {
                        self.violate("C11", "error-dropped-twice-or-never", "", format!("status {} double drops {}", st.0, st.1));
                    }
                }
                self.trace_push(out);
                // C11: no residue when the initialiser allocated nothing
                if self.viol.is_empty() && inner == Inner::Nothing {
                    let where_ = if new_chunk { "new-chunk" } else { "same-chunk" };
                    if !new_chunk && self.cc() != cc0 {
                        self.violate(
                            "C11",
                            "capacity-not-restored",
                            where_,
                            format!("chunk_capacity {} before, {} after", cc0, self.cc()),
                        );
                    }
                    if self.viol.is_empty() && new_chunk {
                        // the chunk opened for the failed value is empty again: what it can still
                        // serve is at most what lies below its bookkeeping
                        if let Some(e) = self.held.iter().max_by_key(|e| e.seq) {
                            let usable = e.size.saturating_sub(self.k);
                            if self.cc() > usable {
                                self.violate(
                                    "C11",
                                    "failed-value-left-finger-in-bookkeeping",
                                    "",
                                    format!("chunk of {} bytes ({} usable) claims {} available after the failed value was taken back", e.size, usable, self.cc()),
                                );
                            }
                        }
                    }
                    if self.viol.is_empty() {
                        self.follow_up_same_layout(slot, where_);
                    }
                }
            }
            _ => {
                if let Some((p, size, align, s)) = kept.get() {
                    // register the kept inner block first (it was allocated after the slot)
                    self.post_keep_then_done(try_, out, addr, size_of::<T>(), align_of::<T>(), Expect::Bytes(bytes_of(std::slice::from_ref(&v))), cc0, slot, (p, size, align, s));
                } else {
                    self.next_slot = Some(slot.size());
                    if inner != Inner::Nothing {
                        // the initialiser allocated too: requests are not attributable to the slot
                        self.slot_fit = Some((usize::MAX, 1));
                    }
                    // the slot, not T, is what has to fit
                    let ok = self.alloc_done_slot(try_, out, addr, size_of::<T>(), align_of::<T>(), Expect::Bytes(bytes_of(std::slice::from_ref(&v))), cc0, slot);
                    let _ = ok;
                }
                // an Ok(T) never carries an error; make sure none was created and lost
                if self.viol.is_empty() && fail && out == Out::Ok {
                    self.violate("C11", "error-swallowed", "", String::new());
                }
            }
        }
    }

    fn check_error_delivery(&mut self, got: u32, want: u32) {
        if got != want {
            self.violate("C11", "wrong-error-delivered", "", format!("got id {} want {}", got, want));
            return;
        }
        let st = track::ledger(|l| (l.get(0, want), l.double_drops.len()));
        if st.0 != 1 {
            self.violate("C11", "error-dropped-inside-arena", "", format!("status {}", st.0));
        } else if st.1 != 0 {
            self.violate("C11", "error-duplicated", "", String::new());
        }
    }

    /// C11: "a request of the same layout made next is served without obtaining memory"
    fn follow_up_same_layout(&mut self, layout: Layout, where_: &'static str) {
        self.stats.hit("c11_follow_up");
        // state-neutral: the follow-up block is given straight back, so that the arena is left
        // exactly as the failed call left it (a chunk that was opened for the failed value stays
        // pristine - histories such as "fail in a new chunk, then reset" must stay reachable)
        let r = self.call(|b| {
            let p = b.try_alloc_layout(layout);
            if let Ok(p) = p {
                unsafe { (&b).deallocate(p, layout) };
            }
            p.map(|p| p.as_ptr() as usize).map_err(|_| ())
        });
        let saved_kind = self.cur_kind;
        let (out, addr) = self.classify(true, r);
        self.post(None);
        if !self.viol.is_empty() {
            return;
        }
        if !self.op_reqs.is_empty() || out != Out::Ok {
            self.violate(
                "C11",
                "failed-value-left-residue",
                where_,
                format!("follow-up of {} bytes align {}: outcome {:?}, allocator requests {:?}", layout.size(), layout.align(), out, self.op_reqs),
            );
            return;
        }
        self.cur_kind = saved_kind;
        if let Some(a) = addr {
            // the follow-up block must itself be a proper block (in bounds, not on a live one)
            if layout.size() > 0 {
                let inside = self.chunk_of(a, layout.size()).is_some();
                let clash = self
                    .blocks
                    .range(..a + layout.size())
                    .next_back()
                    .map(|(&pa, pb)| pa + pb.size > a)
                    .unwrap_or(false);
                let in_footer = self.chunk_of(a, layout.size()).map(|e| a + layout.size() > e.user + e.size - self.k).unwrap_or(false);
                if !inside {
                    self.violate("C01", "outside-held-memory", "follow-up", String::new());
                } else if in_footer {
                    self.violate("C11", "failed-value-left-finger-in-bookkeeping", "follow-up", String::new());
                    self.violate("C01", "inside-bookkeeping", "follow-up", String::new());
                } else if clash {
                    self.violate("C01", "overlap", "follow-up", String::new());
                }
            }
        }
        self.op_place = None;
    }

    #[allow(clippy::too_many_arguments)]
    fn post_keep_then_done(
        &mut self,
        fallible: bool,
        out: Out,
        addr: Option<usize>,
        size: usize,
        align: usize,
        expect: Expect,
        cc0: usize,
        slot: Layout,
        kept: (usize, usize, usize, u32),
    ) {
        // the premise of "conservatively fits" is about the slot alone; with an inner
        // allocation in the same call the request accounting is no longer attributable
        self.post(None);
        if self.viol.is_empty() {
            self.stats.hit("initialiser_kept_inner_block");
            if out == Out::Ok {
                if let Some(a) = addr {
                    self.next_slot = Some(slot.size());
                    self.interior_ok = true;
                    let ok = self.on_block(a, size, align, expect.clone(), false);
                    self.interior_ok = false;
                    if ok {
                        if let Some(k) = Self::bytes_match(a, size, &expect) {
                            self.violate("C02", "wrong-initial-contents", "", format!("byte {} differs", k));
                        }
                    }
                }
            }
            if self.viol.is_empty() {
                self.on_block(kept.0, kept.1, kept.2, Expect::Pat(kept.3), true);
            }
        }
        let _ = (fallible, cc0);
        self.trace_push(out);
    }

    #[allow(clippy::too_many_arguments)]
    fn alloc_done_slot(
        &mut self,
        fallible: bool,
        out: Out,
        addr: Option<usize>,
        size: usize,
        align: usize,
        expect: Expect,
        cc0: usize,
        slot: Layout,
    ) -> bool {
        // "fits" is judged on the slot (what bumpalo reserves), the block registered is T
        self.fit_override = Some(self.slot_fit.take().unwrap_or((slot.size(), slot.align())));
        self.interior_ok = true;
        let r = self.alloc_done(fallible, out, addr, size, align, expect, false, cc0);
        self.fit_override = None;
        self.interior_ok = false;
        r
    }

    pub fn op_slice_try_fill<T: Copy + 'static>(&mut self, iter: bool, len: usize, fail_at: Option<usize>, inner: Inner, seed: u32) {
        let layout = match Layout::array::<T>(len) {
            Ok(l) => l,
            Err(_) => {
                self.trace_push(Out::Skipped);
                return;
            }
        };
        let cc0 = self.cc();
        let arena = self.opts.arena;
        let err_id = track::fresh_id();
        let calls = Cell::new(0usize);
        let kept: Cell<Option<(usize, usize, usize, u32)>> = Cell::new(None);
        let fail_at = fail_at.filter(|&k| k < len);
        let r = self.call(|b| {
            let mut f = |i: usize| -> Result<T, Tr<0>> {
                let _g = harness_scope();
                calls.set(calls.get() + 1);
                if Some(i) == fail_at {
                    kept.set(Self::inner_action(arena, b, inner, seed));
                    Err(<Tr<0> as ErrVal>::new(err_id))
                } else {
                    Ok(make_val::<T>(seed.wrapping_add(i as u32)))
                }
            };
            if iter {
                let it = (0..len).map(&mut f);
                b.alloc_slice_try_fill_iter(it).map(|s| (s.as_ptr() as usize, s.len()))
            } else {
                b.alloc_slice_try_fill_with(len, f).map(|s| (s.as_ptr() as usize, s.len()))
            }
        });
        let mut init_err: Option<Tr<0>> = None;
        let r2 = match r {
            CallOut::Ret(Ok(x)) => CallOut::Ret(Ok(x)),
            CallOut::Ret(Err(e)) => {
                init_err = Some(e);
                CallOut::Ret(Ok((0usize, 0usize)))
            }
            CallOut::Panic(c, m) => CallOut::Panic(c, m),
        };
        let (mut out, res) = self.classify(false, r2);
        if init_err.is_some() {
            out = Out::InitErr;
        }
        if self.viol.is_empty() {
            let want = match out {
                Out::Ok => Some(len),
                Out::InitErr => Some(fail_at.unwrap_or(0) + 1),
                Out::AllocFail => Some(0),
                _ => None,
            };
            if let Some(w) = want {
                if calls.get() != w {
                    let prop = if out == Out::AllocFail { "C11" } else { "C02" };
                    self.violate(prop, "initialiser-call-count", "slice", format!("{} calls want {}", calls.get(), w));
                }
            }
        }
        if out == Out::InitErr {
            self.stats.hit("slice_initialiser_failed");
            self.post(None);
            let new_chunk = !self.op_reqs.is_empty();
            if let Some((p, size, align, s)) = kept.get() {
                if self.viol.is_empty() && self.on_block(p, size, align, Expect::Pat(s), true) {
                    if let Some(b) = self.blocks.get_mut(&p) {
                        b.kept_by_init = true;
                    }
                }
            }
            let e = init_err.take().unwrap();
            if self.viol.is_empty() {
                self.check_error_delivery(e.id, err_id);
            }
            {
                let _g = harness_scope();
                drop(e);
            }
            if self.viol.is_empty() {
                let st = track::ledger(|l| (l.get(0, err_id), l.double_drops.len()));
                if st.0 != 2 || st.1 != 0 {
                    self.violate("C11", "error-dropped-twice-or-never", "slice", format!("status {} double {}", st.0, st.1));
                }
            }
            self.trace_push(out);
            if self.viol.is_empty() && inner == Inner::Nothing {
                let where_ = if new_chunk { "new-chunk" } else { "same-chunk" };
                self.follow_up_same_layout(layout, where_);
            }
            return;
        }
        let src: Vec<T> = (0..len).map(|i| make_val::<T>(seed.wrapping_add(i as u32))).collect();
        self.slice_done::<T>(false, out, res, len, Expect::Bytes(bytes_of(&src)), cc0);
    }
}
