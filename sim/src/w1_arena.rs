//! W1 op handlers, part 2: Allocator-trait ops, arena-level ops, constructors, the run loop.

use crate::common::*;
use crate::simalloc::{self, Entry};
use crate::track;
use crate::w1::*;
use crate::w1_alloc::{Aligned256Err, AlignedErr, BigErr};
use crate::w1_ops::*;
use crate::{with_ety, with_tty, with_ty};
use allocator_api2::alloc::Allocator;
use bumpalo::Bump;
use std::alloc::Layout;
use std::ptr::NonNull;

fn round_down(n: usize, a: usize) -> usize {
    n & !(a - 1)
}

/// `Bump<M>: Send`, asked of the compiler per concrete M (inherent method wins when the bound holds)
pub fn arena_is_send(m: usize) -> bool {
    struct Probe<T>(std::marker::PhantomData<T>);
    trait Fallback {
        fn is_send(&self) -> bool {
            false
        }
    }
    impl<T> Fallback for Probe<T> {}
    impl<T: Send> Probe<T> {
        #[allow(dead_code)]
        fn is_send(&self) -> bool {
            true
        }
    }
    match m {
        1 => Probe::<Bump<1>>(std::marker::PhantomData).is_send(),
        2 => Probe::<Bump<2>>(std::marker::PhantomData).is_send(),
        4 => Probe::<Bump<4>>(std::marker::PhantomData).is_send(),
        8 => Probe::<Bump<8>>(std::marker::PhantomData).is_send(),
        16 => Probe::<Bump<16>>(std::marker::PhantomData).is_send(),
        _ => true,
    }
}

impl<'s, const M: usize> Exec<'s, M> {
    fn violate2(&mut self, p1: &str, p2: &str, oracle: &str, facts: &str, detail: String) {
        self.violate(p1, oracle, facts, detail.clone());
        self.violate(p2, oracle, facts, detail);
    }

    pub fn call_mut<R>(&mut self, f: impl FnOnce(&mut Bump<M>) -> R) -> CallOut<R> {
        let arena = self.opts.arena;
        let b = self.bump.as_mut().expect("arena present");
        match simalloc::arena_call(arena, move || f(b)) {
            Ok(r) => CallOut::Ret(r),
            Err(p) => {
                let msg = panic_message(&p);
                {
                    let _g = simalloc::harness_scope();
                    drop(p);
                }
                CallOut::Panic(classify_panic(&msg), msg)
            }
        }
    }

    // ---- construction and destruction -----------------------------------------------------

    pub fn construct(&mut self, ctor: Ctor) {
        let twin = self.opts.infallible_twin;
        let arena = self.opts.arena;
        let (fallible, cap) = match ctor {
            Ctor::New => (false, None),
            Ctor::TryNew => (!twin, Some(0)),
            Ctor::WithCap(c) => (false, Some(c)),
            Ctor::TryWithCap(c) => (!twin, Some(c)),
        };
        let try_new = matches!(ctor, Ctor::TryNew);
        let r = simalloc::arena_call(arena, || {
            if M == 1 {
                // Bump<1> has its own constructor family (new, try_new, with_capacity, try_with_capacity)
                let mut slot: Option<Bump<M>> = None;
                let mut res: Result<(), ()> = Ok(());
                if let Some(s1) = (&mut slot as &mut dyn std::any::Any).downcast_mut::<Option<Bump<1>>>() {
                    match (fallible, cap) {
                        (false, None) => *s1 = Some(Bump::new()),
                        (false, Some(c)) => *s1 = Some(Bump::with_capacity(c)),
                        (true, Some(_)) if try_new => match Bump::try_new() {
                            Ok(b) => *s1 = Some(b),
                            Err(_) => res = Err(()),
                        },
                        (true, Some(c)) => match Bump::try_with_capacity(c) {
                            Ok(b) => *s1 = Some(b),
                            Err(_) => res = Err(()),
                        },
                        (true, None) => unreachable!(),
                    }
                }
                return match (res, slot) {
                    (Err(()), _) => Err(()),
                    (Ok(()), Some(b)) => Ok(b),
                    (Ok(()), None) => unreachable!(),
                };
            }
            match (fallible, cap) {
                (false, None) if M == 2 || M == 8 => Ok(<Bump<M> as Default>::default()),
                (false, None) => Ok(Bump::<M>::with_min_align()),
                (false, Some(c)) => Ok(Bump::<M>::with_min_align_and_capacity(c)),
                (true, Some(c)) => Bump::<M>::try_with_min_align_and_capacity(c).map_err(|_| ()),
                (true, None) => unreachable!(),
            }
        });
        let r = match r {
            Ok(x) => CallOut::Ret(x),
            Err(p) => {
                let msg = panic_message(&p);
                {
                    let _g = simalloc::harness_scope();
                    drop(p);
                }
                CallOut::Panic(classify_panic(&msg), msg)
            }
        };
        let (out, b) = self.classify(fallible, r);
        self.bump = b;
        self.limit = None;
        if self.opts.huge_limit {
            if let Some(b) = self.bump.as_ref() {
                b.set_allocation_limit(Some(usize::MAX));
                self.limit = Some(usize::MAX);
            }
        }
        self.post(None);
        if self.viol.is_empty() && out == Out::Ok {
            let c = cap.unwrap_or(0);
            if c == 0 {
                if !self.op_reqs.is_empty() {
                    // not stated by any property: a capacity-less constructor may or may not
                    // allocate; only count it
                    self.stats.hit("ctor_without_capacity_allocated");
                } else {
                    self.stats.hit("ctor_chunkless");
                }
            } else {
                self.stats.hit("ctor_with_capacity");
                if self.cc() < c {
                    self.violate(
                        "C18",
                        "capacity-not-honoured",
                        "",
                        format!("asked {} chunk_capacity {}", c, self.cc()),
                    );
                }
            }
        }
        if out == Out::AllocFail && self.op_reqs.iter().any(|r| r.1) && self.viol.is_empty() {
            self.violate("C09", "failed-call-changed-held-memory", "ctor", format!("{:?}", self.op_reqs));
        }
        self.clean_cc = if out == Out::Ok { Some((self.cc(), false)) } else { None };
        self.trace_push(out);
    }

    pub fn destroy(&mut self) {
        if self.bump.is_none() {
            return;
        }
        let saved = self.cur_kind;
        self.cur_kind = "drop";
        let b = self.bump.take().unwrap();
        let r = simalloc::arena_call(self.opts.arena, move || drop(b));
        if let Err(p) = r {
            let msg = panic_message(&p);
            {
                let _g = simalloc::harness_scope();
                drop(p);
            }
            self.violate("C03", "drop-panicked", "", msg);
        }
        self.post(Some("drop"));
        if self.viol.is_empty() && !self.held.is_empty() {
            self.violate(
                "C03",
                "leak-after-drop",
                "",
                format!("{} chunks ({} bytes) still held", self.held.len(), self.held_sum()),
            );
        }
        if self.viol.is_empty() && !self.op_reqs.is_empty() {
            self.violate("C03", "request-during-drop", "", String::new());
        }
        self.blocks.clear();
        self.order.clear();
        self.raw_order.clear();
        self.per_chunk.clear();
        self.held.clear();
        self.limit = None;
        self.clean_cc = None;
        self.cur_kind = saved;
    }

    // ---- Allocator trait ------------------------------------------------------------------

    pub fn op_aalloc(&mut self, size: usize, align: usize, zeroed: bool, seed: u32) {
        let layout = match Layout::from_size_align(size, align) {
            Ok(l) => l,
            Err(_) => return self.trace_push(Out::Skipped),
        };
        let cc0 = self.cc();
        let r = self.call(|b| {
            let r = if zeroed { (&b).allocate_zeroed(layout) } else { (&b).allocate(layout) };
            r.map(|p| (p.as_ptr() as *mut u8 as usize, p.len())).map_err(|_| ())
        });
        let (out, res) = self.classify(true, r);
        if let Some((a, n)) = res {
            if n < size && self.viol.is_empty() {
                self.violate("C12", "returned-slice-too-short", "allocate", format!("{} < {}", n, size));
            }
            if zeroed && self.viol.is_empty() && a != 0 && a % align == 0 {
                let nz = (0..size).find(|&k| unsafe { *(a as *const u8).add(k) } != 0);
                if let Some(k) = nz {
                    self.violate("C12", "allocate-zeroed-not-zero", "", format!("byte {}", k));
                }
            }
        }
        // the block is what came back: the whole returned slice is the caller's, so the whole of it
        // has to lie in arena memory, clear of bookkeeping and of every other live block (with the
        // crate as it is the slice is exactly as long as the request)
        let extent = res.map(|r| r.1.max(size)).unwrap_or(size);
        if extent > size {
            self.stats.hit("allocate_returned_more_than_requested");
        }
        self.alloc_done(true, out, res.map(|r| r.0), extent, align, Expect::Pat(seed), true, cc0);
    }

    fn pick_raw(&self, i: usize) -> Option<(usize, Block)> {
        if self.raw_order.is_empty() {
            return None;
        }
        let a = if i == usize::MAX {
            *self.raw_order.last().unwrap()
        } else {
            self.raw_order[i % self.raw_order.len()]
        };
        self.blocks.get(&a).map(|b| (a, b.clone()))
    }

    pub fn op_adealloc(&mut self, i: usize) {
        let (a, blk) = match self.pick_raw(i) {
            Some(x) => x,
            None => return self.trace_push(Out::Skipped),
        };
        let layout = Layout::from_size_align(blk.size, blk.align).unwrap();
        let last = self.order.last() == Some(&a);
        let cc0 = self.cc();
        self.forget_block(a);
        if self.script.uniform.is_some() {
            self.uniform_ok = false;
        }
        let r = self.call(|b| unsafe { (&b).deallocate(NonNull::new_unchecked(a as *mut u8), layout) });
        if let CallOut::Panic(_, msg) = r {
            self.violate("C12", "deallocate-panicked", "", msg);
        }
        self.post(None);
        if self.viol.is_empty() && !self.op_reqs.is_empty() {
            self.violate("C12", "deallocate-asked-allocator", "", String::new());
        }
        if self.cc() > cc0 {
            self.stats.hit("deallocate_reclaimed");
        } else {
            self.stats.hit("deallocate_noop");
        }
        let _ = last;
        self.trace_push(Out::Ok);
    }

    pub fn op_agrow(&mut self, i: usize, add: usize, new_align: usize, zeroed: bool, seed: u32) {
        let (a, blk) = match self.pick_raw(i) {
            Some(x) => x,
            None => return self.trace_push(Out::Skipped),
        };
        let old = Layout::from_size_align(blk.size, blk.align).unwrap();
        let new_size = match blk.size.checked_add(add) {
            Some(n) => n,
            None => return self.trace_push(Out::Skipped),
        };
        let new_align = if new_align == 0 { blk.align } else { new_align };
        let new = match Layout::from_size_align(new_size, new_align) {
            Ok(l) => l,
            Err(_) => return self.trace_push(Out::Skipped),
        };
        if self.script.uniform.is_some() {
            self.uniform_ok = false;
        }
        let cc0 = self.cc();
        let r = self.call(|b| unsafe {
            let p = NonNull::new_unchecked(a as *mut u8);
            let r = if zeroed { (&b).grow_zeroed(p, old, new) } else { (&b).grow(p, old, new) };
            r.map(|p| (p.as_ptr() as *mut u8 as usize, p.len())).map_err(|_| ())
        });
        self.realloc_done("grow", a, blk, new, zeroed, seed, r, cc0);
    }

    pub fn op_ashrink(&mut self, i: usize, sub: usize, new_align: usize, seed: u32) {
        let (a, blk) = match self.pick_raw(i) {
            Some(x) => x,
            None => return self.trace_push(Out::Skipped),
        };
        let old = Layout::from_size_align(blk.size, blk.align).unwrap();
        let new_size = blk.size.saturating_sub(sub);
        let new_align = if new_align == 0 { blk.align } else { new_align };
        let new = match Layout::from_size_align(new_size, new_align) {
            Ok(l) => l,
            Err(_) => return self.trace_push(Out::Skipped),
        };
        if self.script.uniform.is_some() {
            self.uniform_ok = false;
        }
        let cc0 = self.cc();
        let r = self.call(|b| unsafe {
            let p = NonNull::new_unchecked(a as *mut u8);
            (&b).shrink(p, old, new)
                .map(|p| (p.as_ptr() as *mut u8 as usize, p.len()))
                .map_err(|_| ())
        });
        self.realloc_done("shrink", a, blk, new, false, seed, r, cc0);
    }

    #[allow(clippy::too_many_arguments)]
    fn realloc_done(
        &mut self,
        what: &'static str,
        a: usize,
        blk: Block,
        new: Layout,
        zeroed: bool,
        seed: u32,
        r: CallOut<Result<(usize, usize), ()>>,
        cc0: usize,
    ) {
        let (out, res) = self.classify(true, r);
        self.post(None);
        if !self.viol.is_empty() {
            return self.trace_push(out);
        }
        match (out, res) {
            (Out::Ok, Some((na, nlen))) => {
                if nlen < new.size() {
                    self.violate("C12", "returned-slice-too-short", what, format!("{} < {}", nlen, new.size()));
                    return self.trace_push(out);
                }
                // the old block is gone whether or not the address changed
                self.forget_block(a);
                let keep = blk.size.min(new.size());
                if na == 0 || na % new.align() != 0 || na % M != 0 {
                    // let on_block report it with the C04 signature; also C12
                    self.violate("C12", "misaligned-result", what, format!("addr%{}={}", new.align(), na % new.align().max(1)));
                }
                let extent = nlen.max(new.size());
                if self.viol.is_empty() && !self.on_block(na, extent, new.align(), Expect::Opaque, true) {
                    // C01/C04 violation: the same fact is a C12 violation ("does not overlap any
                    // other live block", "fits the new layout")
                    let v = self.viol.last().cloned();
                    if let Some(v) = v {
                        self.viol.push(Violation {
                            prop: "C12".into(),
                            sig: v.sig.replacen(&v.prop, "C12", 1),
                            op: v.op.clone(),
                            at: v.at,
                            detail: v.detail,
                        });
                    }
                    return self.trace_push(out);
                }
                if self.viol.is_empty() && new.size() > 0 {
                    if let Some(k) = Self::bytes_match(na, keep, &blk.expect) {
                        self.violate2(
                            "C12",
                            "C02",
                            "prefix-not-preserved",
                            what,
                            format!("byte {} of the first {} (old {} new {})", k, keep, blk.size, new.size()),
                        );
                    }
                    if zeroed && self.viol.is_empty() {
                        let nz = (blk.size..new.size()).find(|&k| unsafe { *(na as *const u8).add(k) } != 0);
                        if let Some(k) = nz {
                            self.violate("C12", "grow-zeroed-tail-not-zero", "", format!("byte {} (old size {})", k, blk.size));
                        }
                    }
                }
                if self.viol.is_empty() {
                    // probes
                    let moved_new_chunk = !self.op_reqs.is_empty();
                    match what {
                        "grow" => {
                            if moved_new_chunk {
                                self.stats.hit("grow_into_new_chunk");
                            } else if na < a && na + new.size() >= a {
                                self.stats.hit("grow_in_place");
                            } else {
                                self.stats.hit("grow_relocated_same_chunk");
                            }
                        }
                        _ => {
                            if na == a {
                                self.stats.hit("shrink_kept_address");
                            } else if moved_new_chunk {
                                self.stats.hit("shrink_into_new_chunk");
                            } else if na > a {
                                self.stats.hit("shrink_in_place_moved_up");
                            } else {
                                self.stats.hit("shrink_relocated");
                            }
                        }
                    }
                    if new.size() > 0 {
                        self.fill_pat(na, extent, seed);
                        if let Some(b) = self.blocks.get_mut(&na) {
                            b.expect = Expect::Pat(seed);
                        }
                    }
                }
            }
            (Out::AllocFail, _) => {
                self.stats.hit("realloc_failed");
                // on error the original block is untouched and still owned by the caller
                if let Some(k) = Self::bytes_match(a, blk.size, &blk.expect) {
                    self.violate("C12", "block-changed-by-failed-call", what, format!("byte {}", k));
                }
                if self.viol.is_empty() && self.op_reqs.iter().any(|r| r.1) {
                    self.violate("C09", "failed-call-changed-held-memory", what, format!("{:?}", self.op_reqs));
                }
                if self.viol.is_empty() {
                    self.checkpoint();
                }
            }
            _ => {}
        }
        let _ = cc0;
        self.trace_push(out);
    }

    // ---- arena-level ops ------------------------------------------------------------------

    fn iter_items(&mut self) -> Option<(Vec<(usize, usize)>, Vec<(usize, usize)>)> {
        let r = self.call_mut(|b| {
            // iteration obtains no memory; the collecting Vecs are the harness's
            let _g = simalloc::harness_scope();
            let mut it = b.iter_allocated_chunks();
            let mut safe: Vec<(usize, usize)> = Vec::new();
            while let Some(s) = it.next() {
                safe.push((s.as_ptr() as usize, s.len()));
            }
            // the iterators are fused: once finished they stay finished
            if it.next().is_some() || it.next().is_some() {
                safe.push((0, usize::MAX));
            }
            let raw: Vec<(usize, usize)> = unsafe { b.iter_allocated_chunks_raw() }.map(|(p, n)| (p as usize, n)).collect();
            (safe, raw)
        });
        match r {
            CallOut::Ret(x) => Some(x),
            CallOut::Panic(_, msg) => {
                self.violate("C10", "iteration-panicked", "", msg);
                None
            }
        }
    }

    pub fn op_reset(&mut self) {
        if self.bump.is_none() {
            return self.trace_push(Out::Skipped);
        }
        let before: Vec<Entry> = self.held.clone();
        let (limit0, cc0, ab0) = {
            let b = self.bump.as_ref().unwrap();
            (b.allocation_limit(), b.chunk_capacity(), b.allocated_bytes())
        };
        let r = self.call_mut(|b| b.reset());
        if let CallOut::Panic(_, msg) = r {
            self.violate("C06", "reset-panicked", "", msg);
        }
        self.just_reset = true;
        if self.limit.is_some() {
            self.reset_since_limit_set = true;
        }
        // live blocks are gone by definition
        self.blocks.clear();
        self.order.clear();
        self.raw_order.clear();
        self.per_chunk.clear();
        self.uniform_ok = true;
        self.post(Some("reset"));
        self.stats.hit("reset");
        if !self.viol.is_empty() {
            return self.trace_push(Out::Ok);
        }
        let n_free = before.len() - self.held.len().min(before.len());
        if !self.op_reqs.is_empty() {
            self.violate("C06", "request-during-reset", "", format!("{:?}", self.op_reqs));
        } else if before.is_empty() {
            self.stats.hit("reset_chunkless");
            let b = self.bump.as_ref().unwrap();
            if !self.held.is_empty() || b.chunk_capacity() != cc0 || b.allocated_bytes() != ab0 {
                self.violate("C06", "chunkless-reset-not-a-noop", "", String::new());
            }
        } else {
            if before.len() > 1 {
                self.stats.hit("reset_multi_chunk");
            }
            if self.held.len() > 1 {
                self.violate("C06", "more-than-one-chunk-after-reset", "", format!("{} of {} kept", self.held.len(), before.len()));
                // C03: reset gives back "all chunks except the one kept"
                self.violate("C03", "reset-did-not-return-all-but-one-chunk", "", format!("{} of {} kept", self.held.len(), before.len()));
            } else if self.held.is_empty() {
                // allowed by the statement ("at most one"), but then nothing may be claimed
                self.stats.hit("reset_kept_nothing");
            }
            let _ = n_free;
        }
        if self.viol.is_empty() {
            let b = self.bump.as_ref().unwrap();
            if b.allocation_limit() != limit0 {
                self.violate("C06", "limit-changed-by-reset", "", format!("{:?} -> {:?}", limit0, b.allocation_limit()));
            } else if b.min_align() != M {
                self.violate("C06", "min-align-changed-by-reset", "", String::new());
            }
        }
        if self.viol.is_empty() {
            if let Some((safe, _)) = self.iter_items() {
                let total: usize = safe.iter().map(|x| x.1).sum();
                if total != 0 {
                    self.violate("C06", "allocated-bytes-shown-after-reset", "", format!("{} bytes in {} items", total, safe.len()));
                }
            }
            // iteration must not have caused allocator traffic
            self.post(None);
        }
        self.clean_cc = Some((self.cc(), true));
        self.trace_push(Out::Ok);
    }

    /// C06/C18: the whole usable capacity of the single held block can be handed out again
    /// without asking the global allocator.
    pub fn op_reuse_probe(&mut self) {
        let (clean, after_reset) = match self.clean_cc {
            Some((c, r)) => (c == self.cc() && self.blocks.is_empty(), r),
            None => (false, false),
        };
        if !clean || self.held.len() != 1 || self.bump.is_none() {
            return self.trace_push(Out::Skipped);
        }
        let prop = if after_reset { "C06" } else { "C18" };
        let kept = self.held[0];
        let cc = self.cc();
        let floor = kept.size.saturating_sub(self.k).saturating_sub(M - 1);
        if cc < floor {
            self.violate(
                prop,
                "usable-capacity-not-available",
                "",
                format!("chunk of {} bytes, chunk_capacity {} < {}", kept.size, cc, floor),
            );
            return self.trace_push(Out::Ok);
        }
        let n = round_down(cc, M);
        if n == 0 {
            return self.trace_push(Out::Skipped);
        }
        self.stats.hit(if after_reset { "reuse_probe_after_reset" } else { "reuse_probe_after_ctor" });
        let layout = Layout::from_size_align(n, 1).unwrap();
        let r = self.call(|b| b.try_alloc_layout(layout).map(|p| p.as_ptr() as usize).map_err(|_| ()));
        let (out, addr) = self.classify(true, r);
        self.post(None);
        if self.viol.is_empty() {
            if out != Out::Ok || !self.op_reqs.is_empty() {
                self.violate(
                    prop,
                    "full-capacity-not-reusable",
                    "",
                    format!("{} bytes: outcome {:?}, allocator requests {:?}", n, out, self.op_reqs),
                );
            } else if let Some(a) = addr {
                let big = n > (256 << 10);
                let ex = if big { Expect::Opaque } else { Expect::Pat(0xC06) };
                if self.on_block(a, n, 1, ex, true) && !big {
                    self.fill_pat(a, n, 0xC06);
                }
            }
        }
        self.trace_push(out);
    }

    /// C18: chunk_capacity() never overstates what the current chunk can still serve.
    pub fn op_cap_probe(&mut self) {
        if self.bump.is_none() {
            return self.trace_push(Out::Skipped);
        }
        let cc = self.cc();
        let n = round_down(cc, M);
        if n == 0 {
            return self.trace_push(Out::Skipped);
        }
        self.stats.hit("cap_probe");
        let layout = match Layout::from_size_align(n, 1) {
            Ok(l) => l,
            Err(_) => {
                self.violate("C18", "chunk-capacity-overstated", "impossible", format!("chunk_capacity() = {}", cc));
                return self.trace_push(Out::Ok);
            }
        };
        let r = self.call(|b| {
            let p = b.try_alloc_layout(layout);
            if let Ok(p) = p {
                unsafe { (&b).deallocate(p, layout) };
            }
            p.map(|p| p.as_ptr() as usize).map_err(|_| ())
        });
        let (out, addr) = self.classify(true, r);
        self.post(None);
        if self.viol.is_empty() {
            if out != Out::Ok || !self.op_reqs.is_empty() {
                self.violate(
                    "C18",
                    "chunk-capacity-overstated",
                    "",
                    format!("chunk_capacity {} but {} bytes: outcome {:?}, requests {:?}", cc, n, out, self.op_reqs),
                );
            } else if let Some(a) = addr {
                // must lie inside the current chunk and not on a live block
                let inside = self.chunk_of(a, n).is_some();
                let clash = self.blocks.range(..a + n).next_back().map(|(&pa, pb)| pa + pb.size > a).unwrap_or(false);
                if !inside {
                    self.violate("C01", "outside-held-memory", "probe", String::new());
                } else if clash {
                    self.violate("C01", "overlap", "probe", String::new());
                }
            }
        }
        self.trace_push(out);
    }

    pub fn op_set_limit(&mut self, spec: LimitSpec) {
        if self.bump.is_none() {
            return self.trace_push(Out::Skipped);
        }
        let b = self.bump.as_ref().unwrap();
        let ab = b.allocated_bytes();
        let v = match spec {
            LimitSpec::Off => None,
            LimitSpec::Abs(n) => Some(n),
            LimitSpec::HeldPlus(d) => Some((ab as i64 + d).max(0) as usize),
            LimitSpec::HeldPlusNext(d) => {
                let newest = self.held.iter().max_by_key(|e| e.seq).map(|e| e.size.saturating_sub(self.k)).unwrap_or(0);
                Some((ab as i64 + 2 * newest as i64 + d).max(0) as usize)
            }
        };
        let r = self.call(|b| b.set_allocation_limit(v));
        if let CallOut::Panic(_, msg) = r {
            self.violate("C07", "set-limit-panicked", "", msg);
        }
        self.limit = v;
        self.reset_since_limit_set = false;
        if let Some(l) = v {
            let held_usable: usize = self.held.iter().map(|e| e.size.saturating_sub(self.k)).sum();
            if l < held_usable {
                self.stats.hit("limit_set_below_held");
            } else {
                self.stats.hit("limit_set_at_or_above_held");
            }
        } else {
            self.stats.hit("limit_removed");
        }
        self.post(None);
        if self.viol.is_empty() && !self.op_reqs.is_empty() {
            self.violate("C08", "accounting-op-asked-allocator", "", String::new());
        }
        self.trace_push(Out::Ok);
    }

    pub fn op_limit_pulse(&mut self, x: usize) {
        if self.bump.is_none() || self.opts.skip_pulses {
            return;
        }
        let _ = self.call(|b| {
            b.set_allocation_limit(Some(x));
            b.set_allocation_limit(None);
        });
        self.stats.hit("limit_pulse");
        self.post(None);
    }

    pub fn op_queries(&mut self) {
        if self.bump.is_none() {
            return self.trace_push(Out::Skipped);
        }
        let b = self.bump.as_ref().unwrap();
        if b.min_align() != M {
            self.violate("C04", "min-align-query", "", format!("{}", b.min_align()));
        } else if b.allocation_limit() != self.limit {
            self.violate("C07", "limit-query", "", format!("{:?} want {:?}", b.allocation_limit(), self.limit));
        }
        self.post(None);
        if self.viol.is_empty() && !self.op_reqs.is_empty() {
            self.violate("C08", "accounting-op-asked-allocator", "", String::new());
        }
        self.trace_push(Out::Ok);
    }

    pub fn op_rewrite(&mut self, i: usize, seed: u32) {
        if self.order.is_empty() {
            return self.trace_push(Out::Skipped);
        }
        let a = self.order[i % self.order.len()];
        let size = match self.blocks.get(&a) {
            Some(b) if b.expect != Expect::Opaque => b.size,
            _ => return self.trace_push(Out::Skipped),
        };
        self.fill_pat(a, size, seed);
        self.blocks.get_mut(&a).unwrap().expect = Expect::Pat(seed);
        self.stats.hit("caller_rewrite");
        self.trace_push(Out::Ok);
    }

    /// C10
    pub fn op_iter_chunks(&mut self) {
        if self.bump.is_none() {
            return self.trace_push(Out::Skipped);
        }
        let (safe, raw) = match self.iter_items() {
            Some(x) => x,
            None => return self.trace_push(Out::Panic),
        };
        self.post(None);
        if !self.viol.is_empty() {
            return self.trace_push(Out::Ok);
        }
        self.stats.hit("iter_chunks");
        if safe != raw {
            self.violate("C10", "safe-and-raw-iteration-differ", "", format!("{} vs {} items", safe.len(), raw.len()));
            return self.trace_push(Out::Ok);
        }
        let mut by_age: Vec<Entry> = self.held.clone();
        by_age.sort_by(|a, b| b.seq.cmp(&a.seq));
        if safe.len() != by_age.len() {
            self.violate("C10", "item-count", "", format!("{} items for {} chunks", safe.len(), by_age.len()));
            return self.trace_push(Out::Ok);
        }
        if by_age.len() > 1 {
            self.stats.hit("iter_chunks_multi");
        }
        for (i, (&(p, n), e)) in safe.iter().zip(by_age.iter()).enumerate() {
            let inside = p >= e.user && p + n <= e.user + e.size;
            if !inside {
                // is it some other chunk of ours? then the order is wrong
                let other = self.held.iter().any(|h| p >= h.user && p + n <= h.user + h.size);
                if other {
                    self.violate("C10", "not-newest-first", "", format!("item {} is not chunk #{}", i, e.req_idx));
                } else {
                    self.violate("C10", "item-outside-chunk", "", format!("item {}", i));
                }
                return self.trace_push(Out::Ok);
            }
            if p + n > e.user + e.size - self.k {
                self.violate("C10", "item-covers-bookkeeping", "", format!("item {} ends {} bytes into the footer", i, p + n - (e.user + e.size - self.k)));
                return self.trace_push(Out::Ok);
            }
        }
        // every live non-zero block is contained in exactly one item
        let mut missing = None;
        for (&a, b) in &self.blocks {
            let c = safe.iter().filter(|&&(p, n)| a >= p && a + b.size <= p + n).count();
            if c != 1 {
                missing = Some((b.size, c));
                break;
            }
        }
        if let Some((size, c)) = missing {
            self.violate("C10", "live-block-not-in-exactly-one-item", "", format!("{}-byte block in {} items", size, c));
            return self.trace_push(Out::Ok);
        }
        // uniform mode: exactly the allocated objects, newest first, nothing else
        if self.script.uniform.is_some() && self.uniform_ok {
            self.stats.hit("iter_chunks_uniform_exact");
            for (&(p, n), e) in safe.iter().zip(by_age.iter()) {
                let empty = Vec::new();
                let list = self.per_chunk.get(&e.req_idx).unwrap_or(&empty);
                let total: usize = list.iter().map(|x| x.1).sum();
                let mut problem: Option<String> = None;
                if total != n {
                    problem = Some(format!(
                        "chunk #{}: {} bytes shown, {} bytes in {} allocated objects",
                        e.req_idx,
                        n,
                        total,
                        list.len()
                    ));
                } else {
                    let mut prev = usize::MAX;
                    for &(a, s) in list.iter() {
                        if s > 0 && (a < p || a >= p + n || a >= prev) {
                            problem = Some(format!("chunk #{}: objects not contiguous newest-first", e.req_idx));
                            break;
                        }
                        if s > 0 {
                            prev = a;
                        }
                    }
                }
                if let Some(d) = problem {
                    let facts = if total < n { "extra-bytes" } else { "missing-bytes" };
                    self.violate("C10", "uniform-not-exact", facts, d);
                    return self.trace_push(Out::Ok);
                }
            }
        }
        self.trace_push(Out::Ok);
    }

    pub fn op_hand_over(&mut self, ops: &[Op]) {
        if self.in_handover {
            return;
        }
        self.stats.hit("hand_over");
        // whether `Bump<M>` may be moved to another thread at all is decided by the type system;
        // the harness itself must compile either way, so the question is asked with a probe and
        // the hand-over below goes through a wrapper
        if !arena_is_send(M) {
            self.violate("C20", "arena-not-send", "", format!("Bump<{}> does not implement Send", M));
            return;
        }
        self.in_handover = true;
        let base = self.cur;
        struct ForceSend<T>(*mut T);
        unsafe impl<T> Send for ForceSend<T> {}
        impl<T> ForceSend<T> {
            fn get(&self) -> *mut T {
                self.0
            }
        }
        let me = ForceSend(self as *mut Self);
        std::thread::scope(|s| {
            let h = std::thread::Builder::new()
                .spawn_scoped(s, move || {
                    // exclusive: the spawning thread only joins
                    let this: &mut Self = unsafe { &mut *me.get() };
                    for op in ops {
                        if !this.viol.is_empty() {
                            break;
                        }
                        this.cur_kind = op.kind();
                        this.step(op);
                        this.stats.steps += 1;
                    }
                })
                .expect("spawn");
            let _ = h.join();
        });
        self.cur = base;
        self.in_handover = false;
    }

    // ---- dispatch -------------------------------------------------------------------------

    pub fn step(&mut self, op: &Op) {
        if self.bump.is_none() && !matches!(op, Op::Recreate(_)) {
            return self.trace_push(Out::Skipped);
        }
        let was_reset = self.just_reset;
        self.op_reqs.clear();
        self.op_place = None;
        if let Some(ua) = self.script.uniform {
            if self.uniform_ok && !crate::w1_gen::conforms_to_uniform(op, ua) {
                self.stats.hit("uniform_premise_broken_until_reset");
                self.uniform_ok = false;
            }
        }
        match op {
            Op::Val { fl, ty, seed } => with_ty!(*ty, T => self.op_val::<T>(*fl, *seed)),
            Op::Layout { try_, size, align, seed } => self.op_layout(*try_, *size, *align, *seed),
            Op::SliceCopy { try_, ety, len, seed } => with_ety!(*ety, T => self.op_slice_copy::<T>(*try_, *len, *seed)),
            Op::SliceClone { try_, len, seed } => self.op_slice_clone(*try_, *len, *seed),
            Op::FillWith { try_, ety, len, seed } => with_ety!(*ety, T => self.op_fill_with::<T>(*try_, *len, *seed)),
            Op::FillCopy { try_, ety, len, seed } => with_ety!(*ety, T => self.op_fill_copy::<T>(*try_, *len, *seed)),
            Op::FillClone { try_, len, seed } => self.op_fill_clone(*try_, *len, *seed),
            Op::FillDefault { try_, tracked, len } => self.op_fill_default(*try_, *tracked, *len),
            Op::HugeLen { entry, try_, len } => self.op_huge_len(*entry, *try_, *len),
            Op::FillIter { try_, ety, len, lie, seed } => with_ety!(*ety, T => self.op_fill_iter::<T>(*try_, *len, *lie, *seed)),
            Op::Str { try_, len, seed } => self.op_str(*try_, *len, *seed),
            Op::TryWith { try_, ty, ety, fail, inner, seed } => match ety {
                ErrTy::Small => with_tty!(*ty, T => self.op_try_with::<T, track::Tr<0>>(*try_, *fail, *inner, *seed)),
                ErrTy::Big => with_tty!(*ty, T => self.op_try_with::<T, BigErr>(*try_, *fail, *inner, *seed)),
                ErrTy::Aligned => with_tty!(*ty, T => self.op_try_with::<T, AlignedErr>(*try_, *fail, *inner, *seed)),
                ErrTy::Aligned256 => with_tty!(*ty, T => self.op_try_with::<T, Aligned256Err>(*try_, *fail, *inner, *seed)),
            },
            Op::SliceTryFill { iter, ety, len, fail_at, inner, seed } => {
                with_ety!(*ety, T => self.op_slice_try_fill::<T>(*iter, *len, *fail_at, *inner, *seed))
            }
            Op::AAlloc { size, align, zeroed, seed } => self.op_aalloc(*size, *align, *zeroed, *seed),
            Op::ADealloc { i } => self.op_adealloc(*i),
            Op::AGrow { i, add, new_align, zeroed, seed } => self.op_agrow(*i, *add, *new_align, *zeroed, *seed),
            Op::AShrink { i, sub, new_align, seed } => self.op_ashrink(*i, *sub, *new_align, *seed),
            Op::Reset => self.op_reset(),
            Op::SetLimit(spec) => self.op_set_limit(*spec),
            Op::LimitPulse(x) => self.op_limit_pulse(*x),
            Op::FillTo { .. } | Op::BurnChunk if self.cc() > (256 << 10) => {
                // keep geometric chunk growth from dominating the run
                self.trace_push(Out::Skipped)
            }
            Op::FillTo { d } => {
                let cc = self.cc();
                let n = if *d >= 0 { cc.saturating_sub(*d as usize) } else { cc + (-*d) as usize };
                let a = self.script.uniform.unwrap_or(1);
                self.op_layout(true, round_down(n, a), a, 0xF111 ^ *d as u32)
            }
            Op::BurnChunk => {
                let a = self.script.uniform.unwrap_or(1);
                let n = round_down(self.cc() + a, a).max(a);
                self.op_layout(true, n, a, 0xB0B0)
            }
            Op::Rewrite { i, seed } => self.op_rewrite(*i, *seed),
            Op::IterChunks => self.op_iter_chunks(),
            Op::Queries => self.op_queries(),
            Op::ReuseProbe => self.op_reuse_probe(),
            Op::CapProbe => self.op_cap_probe(),
            Op::Recreate(c) => {
                self.destroy();
                if self.viol.is_empty() {
                    self.construct(*c);
                }
            }
            Op::HandOver { ops } => self.op_hand_over(ops),
        }
        if was_reset && !matches!(op, Op::Reset) {
            self.just_reset = false;
        }
        // C10 in focus: "together containing every live block of non-zero size exactly once" is
        // checked after every step, not only when the script happens to iterate - an operation that
        // silently moves the bump pointer over a live block (a deallocate that gives back too much)
        // is otherwise only seen once a later allocation has already overlapped the block
        // C12 in focus: the same test after every Allocator-trait call is "deallocate (grow, shrink)
        // never affects the others" - a live block that the arena no longer counts as allocated has
        // been affected, even before anything is written over it
        let c12_step = self.opts.focus == Some("C12") && matches!(op, Op::ADealloc { .. } | Op::AGrow { .. } | Op::AShrink { .. } | Op::AAlloc { .. });
        if (self.opts.focus == Some("C10") || c12_step)
            && self.viol.is_empty()
            && self.bump.is_some()
            && !self.in_handover
            && !self.blocks.is_empty()
            && !matches!(op, Op::IterChunks | Op::HandOver { .. })
        {
            if let Some((safe, _)) = self.iter_items() {
                self.stats.hit("iter_chunks_after_step");
                let mut missing = None;
                for (&a, b) in &self.blocks {
                    let c = safe.iter().filter(|&&(p, n)| a >= p && a + b.size <= p + n).count();
                    if c != 1 {
                        missing = Some((b.size, c));
                        break;
                    }
                }
                if let Some((size, c)) = missing {
                    if c12_step {
                        self.violate("C12", "allocator-call-affected-live-block", "", format!("after {} a live {}-byte block lies in {} of the regions the arena reports as allocated", op.kind(), size, c));
                    } else {
                        self.violate("C10", "live-block-not-in-exactly-one-item", "", format!("{}-byte block in {} items", size, c));
                    }
                }
            }
        }
        self.next_slot = None;
        self.fit_override = None;
        self.interior_ok = false;
    }

    pub fn begin(&mut self) {
        let script = self.script;
        self.cur_kind = "ctor";
        self.construct(script.ctor);
        self.pos = 0;
    }

    /// execute the next op; false when the script is finished (or a violation stopped it)
    pub fn next_step(&mut self) -> bool {
        let script = self.script;
        if self.pos >= script.ops.len() || !self.viol.is_empty() {
            return false;
        }
        let i = self.pos;
        self.pos += 1;
        let every = if script.ops.len() <= 40 { 1 } else { 8 };
        let op = &script.ops[i];
        self.cur = i;
        self.cur_kind = op.kind();
        self.step(op);
        self.stats.steps += 1;
        if let Some(note) = self.harness_note.take() {
            if self.viol.is_empty() {
                // give the memory oracles a chance to name the cause first
                self.checkpoint();
            }
            if self.viol.is_empty() {
                self.violate("HARNESS", note, "", String::new());
            }
        }
        let live: usize = if every == 1 { self.blocks.values().map(|b| b.size).sum() } else { 0 };
        let every = if live > (256 << 10) { 8 } else { every };
        if self.viol.is_empty() && (i % every == every - 1) {
            self.checkpoint();
        }
        if !self.viol.is_empty() && self.opts.focus == Some("C02") && !self.viol.iter().any(|v| v.prop == "C02") {
            // a memory-safety violation of another property stops the run; before it does, see
            // whether it also changed the bytes of a live block (that is C02's own statement)
            let mut bad = None;
            for (&a, b) in &self.blocks {
                if self.chunk_of(a, b.size).is_some() {
                    if let Some(k) = Self::bytes_match(a, b.size, &b.expect) {
                        bad = Some((b.size, k));
                        break;
                    }
                }
            }
            if let Some((size, k)) = bad {
                self.violate("C02", "live-block-changed", "", format!("byte {} of a live {}-byte block changed (seen while stopping for {})", k, size, self.viol[0].sig));
            }
        }
        self.pos < script.ops.len() && self.viol.is_empty()
    }

    pub fn finish(mut self) -> RunReport {
        let script = self.script;
        if self.viol.is_empty() {
            self.cur = script.ops.len();
            self.cur_kind = "end";
            self.checkpoint();
        }
        if self.viol.is_empty() {
            self.destroy();
        } else if let Some(b) = self.bump.take() {
            // after a violation the arena state is not trusted: leak it, SimAlloc reclaims
            std::mem::forget(b);
        }
        if self.viol.is_empty() {
            let dd = track::ledger(|l| l.double_drops.len());
            if dd != 0 {
                self.cur_kind = "end";
                self.violate("C11", "value-dropped-twice", "", format!("{} double drops", dd));
            }
        }
        RunReport {
            violations: self.viol,
            side: self.side,
            trace: self.trace,
            stats: self.stats,
            fp: self.fp.0,
            requests: simalloc::request_count(self.opts.arena),
            request_sizes: self.request_sizes,
        }
    }

    pub fn run(mut self) -> RunReport {
        self.begin();
        while self.next_step() {}
        self.finish()
    }
}

/// object-safe stepping interface, so that arenas of different MIN_ALIGN can be interleaved
pub trait Driver {
    fn d_begin(&mut self);
    fn d_step(&mut self) -> bool;
    fn d_finish(self: Box<Self>) -> RunReport;
}
impl<'s, const M: usize> Driver for Exec<'s, M> {
    fn d_begin(&mut self) {
        self.begin()
    }
    fn d_step(&mut self) -> bool {
        self.next_step()
    }
    fn d_finish(self: Box<Self>) -> RunReport {
        (*self).finish()
    }
}
