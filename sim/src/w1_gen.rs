//! Seeded generation of W1 scripts with swarm configuration (DESIGN §3).

use crate::rng::Rng;
use crate::simalloc::{Placement, Plan};
use crate::w1_ops::*;

#[derive(Clone, Copy, Debug, PartialEq, Eq)]
pub enum Mix {
    General,
    ResetHeavy,
    LimitHeavy,
    FallibleOnly,
    Uniform,
    TryWith,
    AllocatorApi,
    /// limit-free, fault-free script plus LimitPulse ops (C07 twin)
    NoLimitWithPulses,
}

#[derive(Clone, Copy, Debug, PartialEq, Eq)]
pub enum Faults {
    None,
    Some,
}

const K_VAL: usize = 0;
const K_LAYOUT: usize = 1;
const K_SLICE_COPY: usize = 2;
const K_SLICE_CLONE: usize = 3;
const K_FILL_WITH: usize = 4;
const K_FILL_COPY: usize = 5;
const K_FILL_CLONE: usize = 6;
const K_FILL_DEFAULT: usize = 7;
const K_FILL_ITER: usize = 8;
const K_STR: usize = 9;
const K_TRY_WITH: usize = 10;
const K_SLICE_TRY_FILL: usize = 11;
const K_AALLOC: usize = 12;
const K_ADEALLOC: usize = 13;
const K_AGROW: usize = 14;
const K_ASHRINK: usize = 15;
const K_RESET: usize = 16;
const K_SET_LIMIT: usize = 17;
const K_FILL_TO: usize = 18;
const K_BURN: usize = 19;
const K_REWRITE: usize = 20;
const K_ITER: usize = 21;
const K_QUERIES: usize = 22;
const K_CAP_PROBE: usize = 23;
const K_RECREATE: usize = 24;
const K_HAND_OVER: usize = 25;
const K_PULSE: usize = 26;
const NK: usize = 27;

fn base_weights(mix: Mix) -> [u32; NK] {
    let mut w = [0u32; NK];
    let allocs = [
        K_VAL, K_LAYOUT, K_SLICE_COPY, K_SLICE_CLONE, K_FILL_WITH, K_FILL_COPY, K_FILL_CLONE, K_FILL_DEFAULT, K_FILL_ITER, K_STR,
        K_TRY_WITH, K_SLICE_TRY_FILL,
    ];
    for k in allocs {
        w[k] = 6;
    }
    w[K_VAL] = 12;
    w[K_LAYOUT] = 14;
    w[K_AALLOC] = 5;
    w[K_ADEALLOC] = 4;
    w[K_AGROW] = 5;
    w[K_ASHRINK] = 4;
    w[K_RESET] = 2;
    w[K_SET_LIMIT] = 2;
    w[K_FILL_TO] = 6;
    w[K_BURN] = 2;
    w[K_REWRITE] = 5;
    w[K_ITER] = 2;
    w[K_QUERIES] = 1;
    w[K_CAP_PROBE] = 2;
    w[K_RECREATE] = 1;
    w[K_HAND_OVER] = 1;
    match mix {
        Mix::General => {}
        Mix::ResetHeavy => {
            w[K_RESET] = 18;
            w[K_BURN] = 6;
            w[K_TRY_WITH] = 10;
            w[K_SET_LIMIT] = 4;
        }
        Mix::LimitHeavy => {
            w[K_SET_LIMIT] = 22;
            w[K_BURN] = 8;
            w[K_FILL_TO] = 10;
            w[K_RESET] = 5;
            w[K_RECREATE] = 3;
            w[K_QUERIES] = 3;
        }
        Mix::FallibleOnly => {
            w[K_SLICE_TRY_FILL] = 0;
            w[K_SET_LIMIT] = 8;
            w[K_BURN] = 5;
            w[K_HAND_OVER] = 0;
            w[K_RECREATE] = 3;
        }
        Mix::Uniform => {
            for k in [K_AALLOC, K_ADEALLOC, K_AGROW, K_ASHRINK, K_SET_LIMIT, K_CAP_PROBE, K_HAND_OVER, K_FILL_ITER] {
                w[k] = 0;
            }
            w[K_FILL_ITER] = 4;
            w[K_ITER] = 12;
            w[K_TRY_WITH] = 10;
            w[K_SLICE_TRY_FILL] = 10;
            w[K_RESET] = 4;
            w[K_BURN] = 4;
        }
        Mix::TryWith => {
            w[K_TRY_WITH] = 40;
            w[K_SLICE_TRY_FILL] = 25;
            w[K_FILL_TO] = 25;
            w[K_BURN] = 5;
            w[K_ITER] = 4;
        }
        Mix::AllocatorApi => {
            w[K_AALLOC] = 25;
            w[K_ADEALLOC] = 15;
            w[K_AGROW] = 30;
            w[K_ASHRINK] = 22;
            w[K_FILL_TO] = 10;
        }
        Mix::NoLimitWithPulses => {
            w[K_SET_LIMIT] = 0;
            w[K_PULSE] = 14;
            w[K_HAND_OVER] = 0;
        }
    }
    w
}

struct Sizes {
    class: u8,
}
impl Sizes {
    fn draw(&self, r: &mut Rng) -> usize {
        let class = if r.chance(1, 6) { r.below(6) as u8 } else { self.class };
        match class {
            0 => r.below(17) as usize,
            1 => r.below(129) as usize,
            2 => r.below(601) as usize,
            3 => 3000 + r.below(6001) as usize,
            4 => {
                // straddling default chunk sizes
                let c = *r.pick(&[448usize, 464, 512, 960, 1984, 4032, 8128]);
                (c as i64 + r.range(-40, 40)).max(0) as usize
            }
            _ => {
                if r.chance(1, 12) {
                    (1 << 20) + r.below(5000) as usize
                } else {
                    10_000 + r.below(60_000) as usize
                }
            }
        }
    }
    fn len(&self, r: &mut Rng, elem: usize) -> usize {
        let bytes = self.draw(r).min(20_000);
        if elem == 0 {
            r.below(40) as usize
        } else {
            bytes / elem
        }
    }
}

fn draw_align(r: &mut Rng, class: u8, m: usize) -> usize {
    let class = if r.chance(1, 5) { r.below(4) as u8 } else { class };
    match class {
        0 => 1 << r.below((m.trailing_zeros() + 1) as u64),
        1 => m,
        2 => 1 << r.below(7),
        // one draw in eight of this class is stricter than a page (8 KiB .. 128 KiB): chunk
        // alignment and size rounding have arms of their own up there
        _ if r.chance(1, 8) => 1 << (13 + r.below(5)),
        _ => 1 << r.below(13),
    }
}

fn draw_inner(r: &mut Rng, sz: &Sizes, allow: bool) -> Inner {
    if !allow {
        return Inner::Nothing;
    }
    match r.below(4) {
        0 | 1 => Inner::Nothing,
        2 => Inner::Keep {
            size: sz.draw(r).min(2000),
            align: 1 << r.below(6),
        },
        _ => Inner::Release {
            size: sz.draw(r).min(2000),
            align: 1 << r.below(6),
        },
    }
}

fn draw_limit(r: &mut Rng) -> LimitSpec {
    match r.below(12) {
        0 => LimitSpec::Off,
        1 => LimitSpec::Abs(*r.pick(&[0usize, 1, 63, 64, 447, 448, 449, 512])),
        2 => LimitSpec::Abs(r.below(600) as usize),
        3 => LimitSpec::HeldPlus(-1),
        4 => LimitSpec::HeldPlus(0),
        5 => LimitSpec::HeldPlus(1),
        6 => LimitSpec::HeldPlus(r.range(-600, 600)),
        7 => LimitSpec::HeldPlusNext(r.range(-1, 1)),
        8 => LimitSpec::HeldPlusNext(r.range(-100, 100)),
        9 => LimitSpec::Abs(1 << (10 + r.below(14))),
        10 => LimitSpec::HeldPlus(r.range(0, 5000)),
        _ => LimitSpec::Abs(usize::MAX >> r.below(3)),
    }
}

fn draw_ctor(r: &mut Rng, fallible_only: bool) -> Ctor {
    let cap = match r.below(8) {
        0 => 0,
        1 => 1,
        2 => *r.pick(&[447usize, 448, 449, 511, 512, 513, 4095, 4096, 4097]),
        3 => (1usize << r.below(17)) + r.below(3) as usize - 1,
        4 => r.below(3000) as usize,
        5 => r.below(100_000) as usize,
        _ => usize::MAX, // means "no capacity"
    };
    let try_ = fallible_only || r.chance(1, 2);
    match (cap, try_) {
        (usize::MAX, false) => Ctor::New,
        (usize::MAX, true) => Ctor::TryNew,
        (c, false) => Ctor::WithCap(c),
        (c, true) => Ctor::TryWithCap(c),
    }
}

pub fn draw_plan(r: &mut Rng) -> Plan {
    match r.below(8) {
        0 => Plan::Kth(1 + r.below(6) as u32),
        1 => Plan::From(1 + r.below(6) as u32),
        2 => Plan::Above(*r.pick(&[500usize, 600, 1000, 2000, 4000, 5000, 10_000, 40_000])),
        3 => Plan::All,
        4 => Plan::Prob {
            num: *r.pick(&[64u32, 128, 256, 512]),
            seed: r.next(),
        },
        5 => {
            let a = 1 + r.below(5) as u32;
            Plan::Window(a, a + r.below(4) as u32)
        }
        6 => {
            let mut l = [0u32; 8];
            for s in l.iter_mut().take(1 + r.usize_below(4)) {
                *s = 1 + r.below(12) as u32;
            }
            Plan::List(l)
        }
        _ => Plan::Kth(1 + r.below(12) as u32),
    }
}

fn uniform_types(a: usize) -> (&'static [Ty], &'static [ETy], &'static [TTy]) {
    match a {
        1 => (&[Ty::U8, Ty::B3, Ty::B7, Ty::B447, Ty::B1000, Ty::Unit], &[ETy::U8, ETy::B3, ETy::Unit], &[]),
        2 => (&[Ty::U16, Ty::H5], &[ETy::U16], &[]),
        4 => (&[Ty::U32, Ty::W9], &[ETy::U32], &[TTy::U32]),
        8 => (&[Ty::U64, Ty::Q32, Ty::Q1125], &[ETy::U64], &[TTy::U64, TTy::Q32]),
        _ => (&[Ty::U128, Ty::A16], &[ETy::U128], &[]),
    }
}

/// Could the uniform-mode generator have produced this op for alignment `a`? Ops for which the
/// answer is no break the premise of C10's exactness clause (same alignment, size a multiple of it)
/// from the moment they run - also when they fail and register no block, since a refused or
/// failed over-aligned request may legitimately leave alignment padding behind - until the next
/// reset. Ops that allocate nothing conform.
pub fn conforms_to_uniform(op: &Op, a: usize) -> bool {
    let (tys, etys, ttys) = uniform_types(a);
    match op {
        Op::Val { ty, .. } => tys.contains(ty),
        Op::Layout { size, align, .. } | Op::AAlloc { size, align, .. } => (*size == 0 && *align <= a) || (*align == a && size % a == 0),
        Op::SliceCopy { ety, .. } | Op::FillWith { ety, .. } | Op::FillCopy { ety, .. } => etys.contains(ety),
        Op::FillIter { ety, lie, .. } => etys.contains(ety) && *lie == 0,
        Op::SliceClone { .. } | Op::FillClone { .. } | Op::FillDefault { .. } => a == 4,
        Op::Str { .. } => a == 1,
        Op::TryWith { ty, ety, inner, .. } => ttys.contains(ty) && *ety == ErrTy::Small && *inner == Inner::Nothing,
        Op::SliceTryFill { ety, inner, .. } => etys.contains(ety) && *inner == Inner::Nothing,
        Op::ADealloc { .. } | Op::AGrow { .. } | Op::AShrink { .. } => false,
        Op::HugeLen { .. } => false,
        Op::HandOver { ops } => ops.iter().all(|o| conforms_to_uniform(o, a)),
        _ => true,
    }
}

fn ety_size(e: ETy) -> usize {
    match e {
        ETy::Unit => 0,
        ETy::U8 => 1,
        ETy::U16 => 2,
        ETy::U32 => 4,
        ETy::U64 => 8,
        ETy::U128 => 16,
        ETy::B3 => 3,
        ETy::A32 => 32,
    }
}

pub fn gen_w1(seed: u64, mix: Mix, faults: Faults) -> W1Script {
    let root = Rng::new(seed);
    let mut cfg = root.sub(1);
    let mut r = root.sub(2);
    let min_align = 1usize << cfg.below(5);
    let fallible_only = mix == Mix::FallibleOnly;
    let uniform = if mix == Mix::Uniform {
        // A >= MIN_ALIGN, A <= 16
        let lo = min_align.trailing_zeros() as u64;
        Some(1usize << (lo + cfg.below(5 - lo)))
    } else {
        None
    };
    let mut w = base_weights(mix);
    // swarm: disable a random subset of op kinds
    for k in 0..NK {
        if cfg.chance(1, 4) {
            w[k] = 0;
        }
    }
    // never disable what the mix is about
    let keep: &[usize] = match mix {
        Mix::ResetHeavy => &[K_RESET, K_LAYOUT],
        Mix::LimitHeavy => &[K_SET_LIMIT, K_LAYOUT],
        Mix::FallibleOnly => &[K_LAYOUT, K_VAL],
        Mix::Uniform => &[K_ITER, K_LAYOUT],
        Mix::TryWith => &[K_TRY_WITH, K_FILL_TO],
        Mix::AllocatorApi => &[K_AALLOC, K_AGROW, K_ASHRINK],
        Mix::NoLimitWithPulses => &[K_PULSE, K_LAYOUT],
        Mix::General => &[K_LAYOUT],
    };
    let base = base_weights(mix);
    for &k in keep {
        w[k] = base[k];
    }
    let sizes = Sizes { class: cfg.below(6) as u8 };
    let align_class = cfg.below(4) as u8;
    let n_ops = if cfg.chance(3, 4) { cfg.geo(3, 40, 14) } else { cfg.geo(20, 200, 70) };
    let try_bias = if fallible_only { 100 } else { *cfg.pick(&[10u64, 50, 50, 90]) };
    let allow_lies = !fallible_only && uniform.is_none() && cfg.chance(1, 3);
    let allow_inner = uniform.is_none() && cfg.chance(2, 3);
    let fail_bias = *cfg.pick(&[20u64, 50, 80]);
    let plan = match faults {
        Faults::None => Plan::None,
        Faults::Some => draw_plan(&mut cfg),
    };
    let placement = Placement::Seeded(cfg.next());
    let ctor = draw_ctor(&mut cfg, fallible_only);

    let mut ops = Vec::with_capacity(n_ops);
    // swarm prefix: a small limit on a still-empty arena, optionally followed by a zero-sized
    // or tiny request (selects the small-limit bypass of the minimum chunk size)
    if uniform.is_none() && mix != Mix::NoLimitWithPulses && cfg.chance(1, 6) {
        ops.push(Op::SetLimit(LimitSpec::Abs(*cfg.pick(&[0usize, 1, 10, 63, 64, 100, 300, 447]))));
        if cfg.chance(2, 3) {
            let size = *cfg.pick(&[0usize, 0, 1, 8, 60, 100]);
            ops.push(Op::Layout {
                try_: fallible_only || cfg.chance(1, 2),
                size,
                align: 1 << cfg.below(13),
                seed: 7,
            });
        }
    }
    let mut depth = 0;
    // uniform mode, one script in three: the premise ("every allocation in the arena ...") is
    // about what has been allocated since the last reset, so the arena may have any past - chunks
    // obtained for over-aligned requests, grown blocks, failed initialisers. A short mixed prefix,
    // then `reset`, then the uniform history. The interpreter decides per block whether the
    // premise still holds, so every subsequence of such a script stays judgeable.
    if uniform.is_some() {
        let mut pr = root.sub(3);
        if pr.chance(1, 3) {
            let n_pre = 1 + pr.below(6) as usize;
            let mut wp = base_weights(Mix::General);
            for k in [K_RESET, K_RECREATE, K_HAND_OVER, K_SET_LIMIT] {
                wp[k] = 0;
            }
            wp[K_LAYOUT] = 30;
            let pre_sizes = Sizes { class: pr.below(6) as u8 };
            let pre_align_class = 2 + pr.below(2) as u8;
            gen_ops(&mut pr, &wp, n_pre, &mut ops, &mut depth, &GenCfg {
                min_align,
                uniform: None,
                sizes: &pre_sizes,
                align_class: pre_align_class,
                try_bias: 30,
                allow_lies: false,
                allow_inner: false,
                fail_bias: 50,
                fallible_only: false,
                mix: Mix::General,
            });
            ops.push(Op::Reset);
        }
    }
    gen_ops(&mut r, &w, n_ops, &mut ops, &mut depth, &GenCfg {
        min_align,
        uniform,
        sizes: &sizes,
        align_class,
        try_bias,
        allow_lies,
        allow_inner,
        fail_bias,
        fallible_only,
        mix,
    });
    W1Script {
        min_align,
        ctor,
        ops,
        plan,
        placement,
        uniform,
    }
}

struct GenCfg<'a> {
    min_align: usize,
    uniform: Option<usize>,
    sizes: &'a Sizes,
    align_class: u8,
    try_bias: u64,
    allow_lies: bool,
    allow_inner: bool,
    fail_bias: u64,
    fallible_only: bool,
    mix: Mix,
}

fn gen_ops(r: &mut Rng, w: &[u32; NK], n: usize, ops: &mut Vec<Op>, depth: &mut u32, c: &GenCfg) {
    let sz = c.sizes;
    let m = c.min_align;
    for _ in 0..n {
        let k = r.weighted(w);
        let try_ = r.chance(c.try_bias, 100);
        let seed = r.next() as u32;
        let op = match k {
            K_VAL => {
                let ty = match c.uniform {
                    Some(a) => *r.pick(uniform_types(a).0),
                    None => *r.pick(&ALL_TY),
                };
                let fl = match (try_, r.chance(1, 2)) {
                    (false, false) => VFl::Alloc,
                    (false, true) => VFl::With,
                    (true, false) => VFl::TryAlloc,
                    (true, true) => VFl::TryWith,
                };
                Op::Val { fl, ty, seed }
            }
            K_LAYOUT => match c.uniform {
                Some(a) => Op::Layout {
                    try_,
                    size: sz.draw(r) / a * a,
                    align: a,
                    seed,
                },
                None if r.chance(1, 40) => Op::Layout {
                    // sizes no machine can satisfy: must end in Err / the out-of-memory panic
                    try_,
                    size: *r.pick(&[1usize << 31, 1 << 40, isize::MAX as usize / 2, isize::MAX as usize - 4095, (isize::MAX as usize) - 63]),
                    align: 1 << r.below(7),
                    seed,
                },
                None => Op::Layout {
                    try_,
                    size: sz.draw(r),
                    align: draw_align(r, c.align_class, m),
                    seed,
                },
            },
            K_FILL_WITH | K_FILL_COPY | K_FILL_ITER if c.uniform.is_none() && r.chance(1, 30) => Op::HugeLen {
                entry: r.below(7) as u8,
                try_,
                len: *r.pick(&[
                    usize::MAX,
                    usize::MAX / 8 + 2,
                    usize::MAX / 2 + 1,
                    isize::MAX as usize,
                    isize::MAX as usize / 8 + 1,
                    isize::MAX as usize / 2 + 1,
                    1usize << 61,
                    1 << 40,
                    1 << 37,
                ]),
            },
            K_SLICE_COPY | K_FILL_WITH | K_FILL_COPY | K_FILL_ITER => {
                let ety = match c.uniform {
                    Some(a) => *r.pick(uniform_types(a).1),
                    None => *r.pick(&ALL_ETY),
                };
                let len = sz.len(r, ety_size(ety));
                match k {
                    K_SLICE_COPY => Op::SliceCopy { try_, ety, len, seed },
                    K_FILL_WITH => Op::FillWith { try_, ety, len, seed },
                    K_FILL_COPY => Op::FillCopy { try_, ety, len, seed },
                    _ => {
                        let lie = if c.allow_lies && r.chance(1, 3) { r.range(-2, 2) as i8 } else { 0 };
                        Op::FillIter { try_, ety, len, lie, seed }
                    }
                }
            }
            K_SLICE_CLONE | K_FILL_CLONE | K_FILL_DEFAULT => {
                if let Some(a) = c.uniform {
                    if a != 4 {
                        // tracked elements have alignment 4
                        if a == 4 {
                            unreachable!()
                        }
                        Op::Layout {
                            try_,
                            size: sz.draw(r) / a * a,
                            align: a,
                            seed,
                        }
                    } else {
                        let len = sz.len(r, 8).min(300);
                        match k {
                            K_SLICE_CLONE => Op::SliceClone { try_, len, seed },
                            K_FILL_CLONE => Op::FillClone { try_, len, seed },
                            _ => Op::FillDefault { try_, tracked: r.chance(1, 2), len },
                        }
                    }
                } else {
                    let len = sz.len(r, 8).min(300);
                    match k {
                        K_SLICE_CLONE => Op::SliceClone { try_, len, seed },
                        K_FILL_CLONE => Op::FillClone { try_, len, seed },
                        _ => Op::FillDefault { try_, tracked: r.chance(1, 2), len },
                    }
                }
            }
            K_STR => {
                if c.uniform.map(|a| a != 1).unwrap_or(false) {
                    Op::IterChunks
                } else {
                    Op::Str { try_, len: sz.len(r, 2), seed }
                }
            }
            K_TRY_WITH => {
                let (ty, ety) = match c.uniform {
                    Some(a) => {
                        let t = uniform_types(a).2;
                        if t.is_empty() {
                            ops.push(Op::IterChunks);
                            continue;
                        }
                        (*r.pick(t), ErrTy::Small)
                    }
                    None => (*r.pick(&ALL_TTY), *r.pick(&[ErrTy::Small, ErrTy::Small, ErrTy::Small, ErrTy::Big, ErrTy::Big, ErrTy::Aligned, ErrTy::Aligned, ErrTy::Aligned256])),
                };
                Op::TryWith {
                    try_,
                    ty,
                    ety,
                    fail: r.chance(c.fail_bias, 100),
                    inner: draw_inner(r, sz, c.allow_inner),
                    seed,
                }
            }
            K_SLICE_TRY_FILL => {
                let ety = match c.uniform {
                    Some(a) => *r.pick(uniform_types(a).1),
                    None => *r.pick(&ALL_ETY),
                };
                let len = sz.len(r, ety_size(ety));
                let fail_at = if r.chance(c.fail_bias, 100) && len > 0 {
                    Some(match r.below(3) {
                        0 => 0,
                        1 => len - 1,
                        _ => r.usize_below(len),
                    })
                } else {
                    None
                };
                Op::SliceTryFill {
                    iter: r.chance(1, 2),
                    ety,
                    len,
                    fail_at,
                    inner: draw_inner(r, sz, c.allow_inner),
                    seed,
                }
            }
            K_AALLOC => Op::AAlloc {
                size: sz.draw(r),
                align: draw_align(r, c.align_class, m),
                zeroed: r.chance(1, 4),
                seed,
            },
            K_ADEALLOC => Op::ADealloc {
                i: if r.chance(1, 2) { usize::MAX } else { r.usize_below(64) },
            },
            K_AGROW => Op::AGrow {
                i: if r.chance(2, 3) { usize::MAX } else { r.usize_below(64) },
                add: match r.below(4) {
                    0 => r.below(4) as usize,
                    1 => r.below(64) as usize,
                    _ => sz.draw(r),
                },
                new_align: if r.chance(2, 3) { 0 } else { draw_align(r, c.align_class, m) },
                zeroed: r.chance(1, 3),
                seed,
            },
            K_ASHRINK => Op::AShrink {
                i: if r.chance(2, 3) { usize::MAX } else { r.usize_below(64) },
                sub: match r.below(4) {
                    0 => r.below(4) as usize,
                    1 => r.below(64) as usize,
                    2 => usize::MAX, // shrink to zero
                    _ => sz.draw(r),
                },
                new_align: if r.chance(2, 3) { 0 } else { draw_align(r, c.align_class, m) },
                seed,
            },
            K_RESET => {
                ops.push(Op::Reset);
                if r.chance(1, 2) && c.uniform.is_none() {
                    ops.push(Op::ReuseProbe);
                }
                continue;
            }
            K_SET_LIMIT => Op::SetLimit(draw_limit(r)),
            K_FILL_TO => Op::FillTo { d: r.range(-17, 40) as i32 },
            K_BURN => Op::BurnChunk,
            K_REWRITE => Op::Rewrite {
                i: r.usize_below(64),
                seed,
            },
            K_ITER => Op::IterChunks,
            K_QUERIES => Op::Queries,
            K_CAP_PROBE => Op::CapProbe,
            K_RECREATE => {
                ops.push(Op::Recreate(draw_ctor(r, c.fallible_only)));
                if r.chance(1, 3) && c.uniform.is_none() {
                    ops.push(Op::ReuseProbe);
                }
                continue;
            }
            K_HAND_OVER => {
                if *depth > 0 {
                    continue;
                }
                *depth += 1;
                let mut sub = Vec::new();
                let n = 1 + r.usize_below(8);
                gen_ops(r, w, n, &mut sub, depth, c);
                *depth -= 1;
                Op::HandOver { ops: sub }
            }
            K_PULSE => Op::LimitPulse(*r.pick(&[0usize, 1, 100, 447, 448, 1000, 100_000, usize::MAX])),
            _ => unreachable!(),
        };
        let _ = c.mix;
        ops.push(op);
    }
}
