//! W1 op vocabulary (arena histories). Scripts are explicit op lists; references to live
//! blocks are positional-modulo so every subsequence of a script is executable.

use crate::simalloc::{Placement, Plan};
use serde::{Deserialize, Serialize};

#[derive(Clone, Copy, Debug, PartialEq, Eq, Serialize, Deserialize)]
pub enum Ty {
    Unit,
    U8,
    U16,
    U32,
    U64,
    U128,
    B3,
    B7,
    H5,
    W9,
    Q32,
    B447,
    B1000,
    Q1125,
    A16,
    A32,
    A64,
    A4096,
    ZA64,
}
pub const ALL_TY: [Ty; 19] = [
    Ty::Unit,
    Ty::U8,
    Ty::U16,
    Ty::U32,
    Ty::U64,
    Ty::U128,
    Ty::B3,
    Ty::B7,
    Ty::H5,
    Ty::W9,
    Ty::Q32,
    Ty::B447,
    Ty::B1000,
    Ty::Q1125,
    Ty::A16,
    Ty::A32,
    Ty::A64,
    Ty::A4096,
    Ty::ZA64,
];

#[derive(Clone, Copy, Debug)]
#[repr(C, align(16))]
pub struct A16(pub [u8; 48]);
#[derive(Clone, Copy, Debug)]
#[repr(C, align(32))]
pub struct A32(pub [u8; 32]);
#[derive(Clone, Copy, Debug)]
#[repr(C, align(64))]
pub struct A64(pub [u8; 128]);
#[derive(Clone, Copy, Debug)]
#[repr(C, align(4096))]
pub struct A4096(pub [u8; 4096]);
#[derive(Clone, Copy, Debug)]
#[repr(C, align(64))]
pub struct ZA64;

#[macro_export]
macro_rules! with_ty {
    ($ty:expr, $T:ident => $body:expr) => {
        match $ty {
            Ty::Unit => { type $T = (); $body }
            Ty::U8 => { type $T = u8; $body }
            Ty::U16 => { type $T = u16; $body }
            Ty::U32 => { type $T = u32; $body }
            Ty::U64 => { type $T = u64; $body }
            Ty::U128 => { type $T = u128; $body }
            Ty::B3 => { type $T = [u8; 3]; $body }
            Ty::B7 => { type $T = [u8; 7]; $body }
            Ty::H5 => { type $T = [u16; 5]; $body }
            Ty::W9 => { type $T = [u32; 9]; $body }
            Ty::Q32 => { type $T = [u64; 32]; $body }
            Ty::B447 => { type $T = [u8; 447]; $body }
            Ty::B1000 => { type $T = [u8; 1000]; $body }
            Ty::Q1125 => { type $T = [u64; 1125]; $body }
            Ty::A16 => { type $T = $crate::w1_ops::A16; $body }
            Ty::A32 => { type $T = $crate::w1_ops::A32; $body }
            Ty::A64 => { type $T = $crate::w1_ops::A64; $body }
            Ty::A4096 => { type $T = $crate::w1_ops::A4096; $body }
            Ty::ZA64 => { type $T = $crate::w1_ops::ZA64; $body }
        }
    };
}

/// element types of slices
#[derive(Clone, Copy, Debug, PartialEq, Eq, Serialize, Deserialize)]
pub enum ETy {
    Unit,
    U8,
    U16,
    U32,
    U64,
    U128,
    B3,
    A32,
}
pub const ALL_ETY: [ETy; 8] = [
    ETy::Unit,
    ETy::U8,
    ETy::U16,
    ETy::U32,
    ETy::U64,
    ETy::U128,
    ETy::B3,
    ETy::A32,
];

#[macro_export]
macro_rules! with_ety {
    ($ty:expr, $T:ident => $body:expr) => {
        match $ty {
            ETy::Unit => { type $T = (); $body }
            ETy::U8 => { type $T = u8; $body }
            ETy::U16 => { type $T = u16; $body }
            ETy::U32 => { type $T = u32; $body }
            ETy::U64 => { type $T = u64; $body }
            ETy::U128 => { type $T = u128; $body }
            ETy::B3 => { type $T = [u8; 3]; $body }
            ETy::A32 => { type $T = $crate::w1_ops::A32; $body }
        }
    };
}

/// value types usable with the fallible-initialiser methods (kept small: each is
/// monomorphised against three error types)
#[derive(Clone, Copy, Debug, PartialEq, Eq, Serialize, Deserialize)]
pub enum TTy {
    U8,
    U32,
    U64,
    Q32,
    B1000,
    A32,
    Unit,
}
pub const ALL_TTY: [TTy; 7] = [TTy::U8, TTy::U32, TTy::U64, TTy::Q32, TTy::B1000, TTy::A32, TTy::Unit];

#[macro_export]
macro_rules! with_tty {
    ($ty:expr, $T:ident => $body:expr) => {
        match $ty {
            TTy::U8 => { type $T = u8; $body }
            TTy::U32 => { type $T = u32; $body }
            TTy::U64 => { type $T = u64; $body }
            TTy::Q32 => { type $T = [u64; 32]; $body }
            TTy::B1000 => { type $T = [u8; 1000]; $body }
            TTy::A32 => { type $T = $crate::w1_ops::A32; $body }
            TTy::Unit => { type $T = (); $body }
        }
    };
}

#[derive(Clone, Copy, Debug, PartialEq, Eq, Serialize, Deserialize)]
pub enum ErrTy {
    /// 8-byte tracked error
    Small,
    /// 512-byte tracked error (tends to force a new chunk)
    Big,
    /// 64-byte-aligned tracked error
    Aligned,
    /// 256-byte-aligned tracked error (stricter than any chunk-size granule)
    Aligned256,
}

/// single-value allocation flavour
#[derive(Clone, Copy, Debug, PartialEq, Eq, Serialize, Deserialize)]
pub enum VFl {
    Alloc,
    TryAlloc,
    With,
    TryWith,
}

/// what an initialiser does inside the arena before returning
#[derive(Clone, Copy, Debug, PartialEq, Eq, Serialize, Deserialize)]
pub enum Inner {
    Nothing,
    Keep { size: usize, align: usize },
    Release { size: usize, align: usize },
}

#[derive(Clone, Copy, Debug, PartialEq, Eq, Serialize, Deserialize)]
pub enum LimitSpec {
    Off,
    Abs(usize),
    /// allocated_bytes() + delta (saturating at 0)
    HeldPlus(i64),
    /// allocated_bytes() + 2 * (usable size of the newest chunk) + delta
    HeldPlusNext(i64),
}

#[derive(Clone, Copy, Debug, PartialEq, Eq, Serialize, Deserialize)]
pub enum Ctor {
    New,
    TryNew,
    WithCap(usize),
    TryWithCap(usize),
}

#[derive(Clone, Debug, PartialEq, Serialize, Deserialize)]
pub enum Op {
    Val { fl: VFl, ty: Ty, seed: u32 },
    Layout { try_: bool, size: usize, align: usize, seed: u32 },
    SliceCopy { try_: bool, ety: ETy, len: usize, seed: u32 },
    SliceClone { try_: bool, len: usize, seed: u32 },
    FillWith { try_: bool, ety: ETy, len: usize, seed: u32 },
    FillCopy { try_: bool, ety: ETy, len: usize, seed: u32 },
    FillClone { try_: bool, len: usize, seed: u32 },
    FillDefault { try_: bool, tracked: bool, len: usize },
    /// `yields - len` = lie (0 honest; <0 yields too few; >0 yields too many)
    FillIter { try_: bool, ety: ETy, len: usize, lie: i8, seed: u32 },
    Str { try_: bool, len: usize, seed: u32 },
    TryWith { try_: bool, ty: TTy, ety: ErrTy, fail: bool, inner: Inner, seed: u32 },
    SliceTryFill { iter: bool, ety: ETy, len: usize, fail_at: Option<usize>, inner: Inner, seed: u32 },
    AAlloc { size: usize, align: usize, zeroed: bool, seed: u32 },
    ADealloc { i: usize },
    AGrow { i: usize, add: usize, new_align: usize, zeroed: bool, seed: u32 },
    AShrink { i: usize, sub: usize, new_align: usize, seed: u32 },
    Reset,
    SetLimit(LimitSpec),
    /// set Some(x) then None (C07 twin runs skip these)
    LimitPulse(usize),
    /// allocate chunk_capacity() - d bytes (align 1) so the next request meets the chunk end
    FillTo { d: i32 },
    BurnChunk,
    Rewrite { i: usize, seed: u32 },
    IterChunks,
    Queries,
    ReuseProbe,
    CapProbe,
    Recreate(Ctor),
    HandOver { ops: Vec<Op> },
    /// a slice entry point asked for an element count no machine can satisfy (bytes above
    /// isize::MAX, a product that wraps, or simply terabytes): Err / out-of-memory panic, the
    /// initialiser never runs, nothing changes. entry: 0 fill_with<u64>, 1 fill_copy<u16>,
    /// 2 fill_clone<u32>, 3 fill_default<u64>, 4 fill_iter<u64>, 5 alloc_slice_try_fill_with<u64>,
    /// 6 alloc_slice_try_fill_iter<u64>
    HugeLen { entry: u8, try_: bool, len: usize },
}

impl Op {
    pub fn kind(&self) -> &'static str {
        match self {
            Op::Val { fl, .. } => match fl {
                VFl::Alloc => "alloc",
                VFl::TryAlloc => "try_alloc",
                VFl::With => "alloc_with",
                VFl::TryWith => "try_alloc_with",
            },
            Op::Layout { try_: false, .. } => "alloc_layout",
            Op::Layout { try_: true, .. } => "try_alloc_layout",
            Op::SliceCopy { try_: false, .. } => "alloc_slice_copy",
            Op::SliceCopy { try_: true, .. } => "try_alloc_slice_copy",
            Op::SliceClone { try_: false, .. } => "alloc_slice_clone",
            Op::SliceClone { try_: true, .. } => "try_alloc_slice_clone",
            Op::FillWith { try_: false, .. } => "alloc_slice_fill_with",
            Op::FillWith { try_: true, .. } => "try_alloc_slice_fill_with",
            Op::FillCopy { try_: false, .. } => "alloc_slice_fill_copy",
            Op::FillCopy { try_: true, .. } => "try_alloc_slice_fill_copy",
            Op::FillClone { try_: false, .. } => "alloc_slice_fill_clone",
            Op::FillClone { try_: true, .. } => "try_alloc_slice_fill_clone",
            Op::FillDefault { try_: false, .. } => "alloc_slice_fill_default",
            Op::FillDefault { try_: true, .. } => "try_alloc_slice_fill_default",
            Op::FillIter { try_: false, .. } => "alloc_slice_fill_iter",
            Op::FillIter { try_: true, .. } => "try_alloc_slice_fill_iter",
            Op::Str { try_: false, .. } => "alloc_str",
            Op::Str { try_: true, .. } => "try_alloc_str",
            Op::TryWith { try_: false, .. } => "alloc_try_with",
            Op::TryWith { try_: true, .. } => "try_alloc_try_with",
            Op::SliceTryFill { iter: false, .. } => "alloc_slice_try_fill_with",
            Op::SliceTryFill { iter: true, .. } => "alloc_slice_try_fill_iter",
            Op::AAlloc { .. } => "allocate",
            Op::ADealloc { .. } => "deallocate",
            Op::AGrow { zeroed: false, .. } => "grow",
            Op::AGrow { zeroed: true, .. } => "grow_zeroed",
            Op::AShrink { .. } => "shrink",
            Op::HugeLen { .. } => "huge_len",
            Op::Reset => "reset",
            Op::SetLimit(_) => "set_allocation_limit",
            Op::LimitPulse(_) => "limit_pulse",
            Op::FillTo { .. } => "fill_to",
            Op::BurnChunk => "burn_chunk",
            Op::Rewrite { .. } => "rewrite",
            Op::IterChunks => "iter_chunks",
            Op::Queries => "queries",
            Op::ReuseProbe => "reuse_probe",
            Op::CapProbe => "cap_probe",
            Op::Recreate(_) => "recreate",
            Op::HandOver { .. } => "hand_over",
        }
    }
    /// is this a `try_` method in the sense of C09
    pub fn is_fallible(&self) -> bool {
        match self {
            Op::Val { fl, .. } => matches!(fl, VFl::TryAlloc | VFl::TryWith),
            Op::Layout { try_, .. }
            | Op::SliceCopy { try_, .. }
            | Op::SliceClone { try_, .. }
            | Op::FillWith { try_, .. }
            | Op::FillCopy { try_, .. }
            | Op::FillClone { try_, .. }
            | Op::FillDefault { try_, .. }
            | Op::FillIter { try_, .. }
            | Op::Str { try_, .. }
            | Op::HugeLen { try_, .. }
            | Op::TryWith { try_, .. } => *try_,
            _ => false,
        }
    }
}

#[derive(Clone, Debug, PartialEq, Serialize, Deserialize)]
pub struct W1Script {
    pub min_align: usize,
    pub ctor: Ctor,
    pub ops: Vec<Op>,
    pub plan: Plan,
    pub placement: Placement,
    /// C10 uniform mode: every allocation has this alignment and a size multiple of it
    pub uniform: Option<usize>,
}
