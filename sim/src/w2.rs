//! W2 executor: several collection clients in one arena, interleaved by the recorded schedule;
//! every call is mirrored on a std collection and the two worlds are compared after each step.

use crate::common::*;
use crate::simalloc::{self, Event, Refusal};
use crate::track::{self, Big, Tr, Wide, Zt};
use crate::w2_box::BoxClient;
use crate::w2_ops::*;
use crate::w2_str::StrPair;
use crate::w2_vec::{b_call, OpOutcome, VecPair};
use bumpalo::Bump;
use std::alloc::Layout;

pub enum Client {
    V8(VecPair<u8, u8>),
    V32(VecPair<u32, u32>),
    VTr(VecPair<Tr<0>, Tr<1>>),
    VBig(VecPair<Big<0>, Big<1>>),
    VWide(VecPair<Wide<0>, Wide<1>>),
    VZt(VecPair<Zt<0>, Zt<1>>),
    S(StrPair),
    R(Vec<(usize, usize, u32)>),
    B(BoxClient),
    A(Option<allocator_api2::vec::Vec<u32, &'static Bump>>, Vec<u32>),
}

pub struct W2Report {
    pub violations: Vec<Violation>,
    pub stats: Stats,
    pub fp: u64,
}

pub fn op_name<T: std::fmt::Debug>(op: &T) -> String {
    let s = format!("{:?}", op);
    s.chars().take_while(|c| c.is_ascii_alphanumeric() || *c == '_').collect()
}

struct W2<'a> {
    focus: Option<&'static str>,
    script: &'a W2Script,
    bump: &'static Bump,
    clients: Vec<Client>,
    viol: Vec<Violation>,
    stats: Stats,
    fp: Fp,
    cur: usize,
    events: Vec<Event>,
}

impl<'a> W2<'a> {
    fn violate(&mut self, prop: &str, oracle: &str, facts: &str, op: &str, detail: String) {
        let sig = if facts.is_empty() { format!("{}/{}", prop, oracle) } else { format!("{}/{}/{}", prop, oracle, facts) };
        self.viol.push(Violation {
            prop: prop.into(),
            sig,
            op: op.into(),
            at: self.cur,
            detail,
        });
    }

    fn prop_of(c: &Client) -> &'static str {
        match c {
            Client::S(_) => "C14",
            Client::B(_) => "C17",
            Client::A(..) => "C12",
            Client::R(_) => "C13",
            _ => "C13",
        }
    }

    /// allocator events of the step: no chunk may be returned while clients are alive
    fn post_events(&mut self, op: &str, prop: &'static str) {
        self.events.clear();
        simalloc::take_events(&mut self.events);
        let evs = std::mem::take(&mut self.events);
        for e in &evs {
            match e {
                Event::Request { outcome, .. } => {
                    if *outcome == Refusal::Granted {
                        self.stats.hit("w2_chunk_granted");
                    } else {
                        self.stats.hit("w2_request_refused");
                    }
                }
                Event::Free { .. } => {
                    self.violate("C03", "early-free", "", op, "a chunk was returned while collections were alive".into());
                    if prop == "C17" {
                        self.violate("C17", "box-op-released-arena-memory", "", op, String::new());
                    }
                }
                Event::Anomaly { kind, a, b } => {
                    self.violate("C01", "allocator-anomaly", &format!("{:?}", kind), op, format!("a={} b={}", a, b));
                }
            }
        }
        self.events = evs;
    }

    fn compare_all(&mut self, acting: usize, op: &str) {
        // C15: whatever is reachable through a container (or a live iterator) is a live value
        for i in 0..self.clients.len() {
            let r = match &self.clients[i] {
                Client::VTr(p) => p.reachable_live(),
                Client::VBig(p) => p.reachable_live(),
                Client::VWide(p) => p.reachable_live(),
                Client::B(p) => {
                    let mut ids = Vec::new();
                    p.reachable_ids(&mut ids);
                    let bad = track::ledger(|l| ids.iter().copied().find(|&id| l.get(0, id) != 1));
                    match bad {
                        Some(id) => Err(format!("value #{} is reachable through a Box but is not live", id)),
                        None => Ok(()),
                    }
                }
                _ => Ok(()),
            };
            if let Err(detail) = r {
                self.violate("C15", "reachable-value-not-live", "", op, format!("client {}: {}", i, detail));
                break;
            }
        }
        for i in 0..self.clients.len() {
            let r: Result<(), (&'static str, String)> = match &self.clients[i] {
                Client::V8(p) => p.compare().map_err(|e| ("contents-differ", e)),
                Client::V32(p) => p.compare().map_err(|e| ("contents-differ", e)),
                Client::VTr(p) => p.compare().map_err(|e| ("contents-differ", e)),
                Client::VBig(p) => p.compare().map_err(|e| ("contents-differ", e)),
                Client::VWide(p) => p.compare().map_err(|e| ("contents-differ", e)),
                Client::VZt(p) => p.compare().map_err(|e| ("contents-differ", e)),
                Client::S(p) => p.compare(),
                Client::R(blocks) => {
                    let mut r = Ok(());
                    for &(a, n, seed) in blocks {
                        let bad = (0..n).find(|&k| unsafe { *(a as *const u8).add(k) } != pat(seed, k));
                        if let Some(k) = bad {
                            r = Err(("canary-changed", format!("byte {} of a {}-byte raw block", k, n)));
                            break;
                        }
                    }
                    r
                }
                Client::B(p) => p.compare().map_err(|e| ("box-value-differs", e)),
                Client::A(b, sv) => match b {
                    Some(bv) => {
                        if bv.as_slice() != sv.as_slice() {
                            Err(("std-collection-in-arena-differs", format!("{:?} vs std {:?}", &bv[..bv.len().min(12)], &sv[..sv.len().min(12)])))
                        } else if bv.capacity() < bv.len() {
                            Err(("std-collection-in-arena-differs", "capacity below length".to_string()))
                        } else {
                            Ok(())
                        }
                    }
                    None => Ok(()),
                },
            };
            if let Err((what, detail)) = r {
                let prop = Self::prop_of(&self.clients[i]);
                if i == acting {
                    if matches!(op, "ShrinkToFit" | "Reserve" | "ReserveExact" | "TryReserve" | "TryReserveExact" | "TryReserveLimited" | "ShrinkTo")
                        && matches!(what, "contents-differ" | "std-collection-in-arena-differs" | "text-differs")
                    {
                        // an operation that only moves / resizes the buffer changed what it holds:
                        // "growing or shrinking a block preserves its first min(old,new) bytes"
                        self.violate("C02", "realloc-lost-contents", "by-a-collection", op, format!("client {}: {}", i, detail.clone()));
                    }
                    self.violate(prop, what, "", op, detail);
                } else {
                    // a neighbour changed although it was not the one operated on
                    let actor = Self::prop_of(&self.clients[acting]);
                    self.violate(actor, "neighbour-disturbed", what, op, format!("client {}: {}", i, detail));
                    if what == "canary-changed" {
                        // a raw arena block changed although nobody wrote through its pointer
                        self.violate("C02", "live-block-changed", "by-a-collection", op, format!("client {}: {}", i, detail));
                    }
                    if actor != prop {
                        self.violate(prop, "neighbour-disturbed", what, op, format!("client {}: {}", i, detail));
                    }
                }
                return;
            }
        }
    }

    /// C15: both worlds dropped exactly the same values; nothing dropped twice
    fn compare_worlds(&mut self, op: &str) {
        let r = track::ledger(|l| {
            if let Some(&(w, id)) = l.double_drops.first() {
                return Some(("double-drop", format!("value #{} dropped twice (world {})", id, w)));
            }
            let n = l.max_id();
            for id in 1..n {
                let (a, b) = (l.get(0, id), l.get(1, id));
                if a != b {
                    let st = |x| match x {
                        0 => "never created",
                        1 => "live",
                        _ => "dropped",
                    };
                    return Some((
                        if a == 2 { "dropped-early-or-extra" } else if b == 2 { "not-dropped" } else { "creation-differs" },
                        format!("value #{}: bumpalo world {}, std world {}", id, st(a), st(b)),
                    ));
                }
            }
            if l.zst_created != [l.zst_created[0]; 2] || l.zst_dropped[0] != l.zst_dropped[1] {
                return Some((
                    "zst-drop-count",
                    format!("created {:?} dropped {:?}", l.zst_created, l.zst_dropped),
                ));
            }
            if l.zst_dropped[0] > l.zst_created[0] {
                return Some(("double-drop", "more zero-sized values dropped than created".into()));
            }
            None
        });
        if let Some((what, detail)) = r {
            self.violate("C15", "drop-ledger", what, op, detail);
        }
    }

    fn step(&mut self, ci: usize, op: &COp) {
        let bump = self.bump;
        let name = match op {
            COp::V(o) => op_name(o),
            COp::S(o) => op_name(o),
            COp::R(o) => op_name(o),
            COp::B(o) => op_name(o),
            COp::A(o) => op_name(o),
        };
        self.fp.mix(crate::rng::fnv(&name) ^ (ci as u64) << 56);
        let prop = Self::prop_of(&self.clients[ci]);
        // capacity-relative positions resolve against the addressed container; clients that do not
        // announce their spare capacity see none
        crate::w2_ops::set_spare(0);
        let (cc0, ab0) = (bump.chunk_capacity(), bump.allocated_bytes());
        let out: Option<OpOutcome> = match (&mut self.clients[ci], op) {
            (Client::V8(p), COp::V(o)) => p.exec_write(bump, o).or_else(|| p.exec_copy(bump, o)).or_else(|| Some(p.exec(bump, o))),
            (Client::V32(p), COp::V(o)) => p.exec_copy(bump, o).or_else(|| Some(p.exec(bump, o))),
            (Client::VTr(p), COp::V(o)) => Some(p.exec(bump, o)),
            (Client::VBig(p), COp::V(o)) => Some(p.exec(bump, o)),
            (Client::VWide(p), COp::V(o)) => Some(p.exec(bump, o)),
            (Client::VZt(p), COp::V(o)) => Some(p.exec(bump, o)),
            (Client::S(p), COp::S(o)) => Some(p.exec(bump, o)),
            (Client::B(p), COp::B(o)) => Some(p.exec(bump, o)),
            (Client::A(b, sv), COp::A(o)) => Some(exec_avec(bump, b, sv, o)),
            (Client::R(blocks), COp::R(o)) => {
                match o {
                    ROp::Alloc { size, align, seed } => {
                        if let Ok(l) = Layout::from_size_align((*size).min(70_000), *align) {
                            if let Ok(p) = b_call(|| bump.alloc_layout(l).as_ptr() as usize) {
                                for k in 0..l.size() {
                                    unsafe { *(p as *mut u8).add(k) = pat(*seed, k) };
                                }
                                blocks.push((p, l.size(), *seed));
                            }
                        }
                    }
                    ROp::FillTo { d } => {
                        let cc = bump.chunk_capacity();
                        if cc <= (256 << 10) {
                            let n = if *d >= 0 { cc.saturating_sub(*d as usize) } else { cc + (-*d) as usize };
                            let l = Layout::from_size_align(n, 1).unwrap();
                            if let Ok(p) = b_call(|| bump.alloc_layout(l).as_ptr() as usize) {
                                for k in 0..n {
                                    unsafe { *(p as *mut u8).add(k) = pat(77, k) };
                                }
                                blocks.push((p, n, 77));
                            }
                        }
                    }
                    ROp::Rewrite { i, seed } => {
                        if !blocks.is_empty() {
                            let n = blocks.len();
                            let b = &mut blocks[*i % n];
                            for k in 0..b.1 {
                                unsafe { *(b.0 as *mut u8).add(k) = pat(*seed, k) };
                            }
                            b.2 = *seed;
                        }
                    }
                }
                None
            }
            _ => None, // op addressed to a client of another kind: skipped (keeps subsequences executable)
        };
        self.post_events(&name, prop);
        if !self.viol.is_empty() {
            return;
        }
        if let Some(o) = out {
            self.stats.hit("w2_mirrored_call");
            match (&o.b, &o.s) {
                (Err(()), Ok(_)) => {
                    self.violate(prop, "panic-mismatch", &format!("{}-bumpalo-panicked-std-did-not", name), &name, String::new());
                }
                (Ok(_), Err(())) => {
                    self.violate(prop, "panic-mismatch", &format!("{}-std-panicked-bumpalo-did-not", name), &name, String::new());
                }
                (Ok(a), Ok(b)) => {
                    if a != b {
                        self.violate(prop, "return-value-differs", &name.clone(), &name, format!("{:?} vs std {:?}", a, b));
                    }
                }
                (Err(()), Err(())) => self.stats.hit("w2_both_panicked"),
            }
            if let Some(("C15+C17", oracle, detail)) = o.extra {
                // both properties state it: the boxed slice a vector is turned into owns exactly
                // the vector's elements (C15), the conversion preserves the value (C17)
                self.violate("C15", oracle, "", &name, detail.clone());
                self.violate("C17", oracle, "", &name, detail);
            } else if let Some((p, oracle, detail)) = o.extra {
                if self.focus.map(|f| f != p).unwrap_or(false) {
                    // a capacity claim that is another property's business: remember it and go
                    // on, so that what it leads to (a neighbour overwritten) is seen as well
                    self.stats.hit("w2_side_violation");
                } else {
                    self.violate(p, oracle, "", &name, detail);
                }
            }
            self.fp.mix(o.b.is_err() as u64);
        }
        // evaluate every oracle of this step even if one already failed: one fact can violate
        // several properties (an overwritten element is a wrong value *and* a drop-ledger error)
        let before = self.viol.len();
        self.compare_all(ci, &name);
        self.compare_worlds(&name);
        if prop == "C17" {
            // a drop-ledger discrepancy produced by a Box operation is also C17's business
            // ("runs the value's destructor exactly once when dropped")
            let extra: Vec<Violation> = self.viol[before..]
                .iter()
                .filter(|v| v.prop == "C15")
                .map(|v| Violation { prop: "C17".into(), sig: v.sig.replacen("C15", "C17", 1), op: v.op.clone(), at: v.at, detail: v.detail.clone() })
                .collect();
            self.viol.extend(extra);
        }
        if !self.viol.is_empty() {
            return;
        }
        if let Some((a, _)) = simalloc::check_redzones() {
            self.violate("C01", "write-outside-chunk", &format!("{:?}", a), &name, String::new());
        }
        // C17: dropping or converting a Box never gives arena memory back
        if let COp::B(bop) = op {
            if matches!(bop, BOp::Drop(_) | BOp::IntoInner(_) | BOp::Leak(_)) {
                self.stats.hit("w2_box_released_value");
                if bump.chunk_capacity() > cc0 || bump.allocated_bytes() != ab0 {
                    self.violate(
                        "C17",
                        "box-op-released-arena-memory",
                        "",
                        &name,
                        format!("chunk_capacity {} -> {}", cc0, bump.chunk_capacity()),
                    );
                }
            }
        }
    }
}

pub fn exec_w2(script: &W2Script, focus: Option<&'static str>) -> W2Report {
    simalloc::begin_run(script.placement);
    // collections are mirrored on std, which has no 16 MiB machine: a megabyte text that doubles a
    // few times must not end in a simulated out-of-memory that std would not see
    simalloc::set_machine_bytes(1 << 31);
    track::reset_ledger();
    let cap = script.capacity;
    let b = match simalloc::arena_call(0, || if cap == 0 { Bump::new() } else { Bump::with_capacity(cap) }) {
        Ok(b) => b,
        Err(_) => {
            simalloc::end_run();
            return W2Report {
                violations: Vec::new(),
                stats: Stats::default(),
                fp: 0,
            };
        }
    };
    let ptr: *mut Bump = Box::into_raw(Box::new(b));
    let bump: &'static Bump = unsafe { &*ptr };
    let clients = script
        .clients
        .iter()
        .map(|k| match k {
            ClientKind::Vec(VT::U8) => Client::V8(VecPair::new()),
            ClientKind::Vec(VT::U32) => Client::V32(VecPair::new()),
            ClientKind::Vec(VT::Tr) => Client::VTr(VecPair::new()),
            ClientKind::Vec(VT::Big) => Client::VBig(VecPair::new()),
            ClientKind::Vec(VT::Wide) => Client::VWide(VecPair::new()),
            ClientKind::Vec(VT::Zt) => Client::VZt(VecPair::new()),
            ClientKind::Str => Client::S(StrPair::new()),
            ClientKind::Raw => Client::R(Vec::new()),
            ClientKind::Boxes => Client::B(BoxClient::new()),
            ClientKind::AVec => Client::A(None, Vec::new()),
        })
        .collect();
    let mut w = W2 {
        focus,
        script,
        bump,
        clients,
        viol: Vec::new(),
        stats: Stats::default(),
        fp: Fp::new(),
        cur: 0,
        events: Vec::new(),
    };
    w.post_events("ctor", "C13");
    for (i, (ci, op)) in script.steps.iter().enumerate() {
        if !w.viol.is_empty() {
            break;
        }
        w.cur = i;
        if (*ci as usize) < w.clients.len() {
            w.step(*ci as usize, op);
            w.stats.steps += 1;
        }
    }
    let _ = w.script;
    if w.viol.is_empty() {
        // let go of every container, in client order
        w.cur = script.steps.len();
        for c in w.clients.iter_mut() {
            match c {
                Client::V8(p) => p.drop_all(),
                Client::V32(p) => p.drop_all(),
                Client::VTr(p) => p.drop_all(),
                Client::VBig(p) => p.drop_all(),
                Client::VWide(p) => p.drop_all(),
                Client::VZt(p) => p.drop_all(),
                Client::S(p) => p.drop_all(),
                Client::R(b) => b.clear(),
                Client::B(p) => p.drop_all(),
                Client::A(b, sv) => {
                    let x = b.take();
                    let _ = b_call(move || drop(x));
                    sv.clear();
                }
            }
        }
        w.post_events("drop-containers", "C13");
        if w.viol.is_empty() {
            w.compare_worlds("drop-containers");
        }
        // the arena's own reset/drop never runs destructors
        let drops0 = track::ledger(|l| (l.drop_count[0], l.zst_dropped[0]));
        let mut owned = unsafe { Box::from_raw(ptr) };
        if script.reset_at_end {
            let _ = simalloc::arena_call(0, || owned.reset());
        }
        let _ = simalloc::arena_call(0, move || drop(owned));
        let drops1 = track::ledger(|l| (l.drop_count[0], l.zst_dropped[0]));
        if w.viol.is_empty() && drops0 != drops1 {
            w.violate("C15", "arena-ran-destructors", "", "drop-arena", format!("{:?} -> {:?}", drops0, drops1));
        }
        let mut ev = Vec::new();
        simalloc::take_events(&mut ev);
        let mut held = Vec::new();
        simalloc::held(0, &mut held);
        if w.viol.is_empty() && !held.is_empty() {
            w.violate("C03", "leak-after-drop", "", "drop-arena", format!("{} chunks", held.len()));
        }
    } else {
        // state not trusted: forget the clients and the arena; SimAlloc reclaims the chunks
        let clients = std::mem::take(&mut w.clients);
        std::mem::forget(clients);
    }
    let end = simalloc::end_run();
    if w.viol.is_empty() && end.write_after_free > 0 {
        w.violate("C03", "write-after-free", "", "end", String::new());
    }
    W2Report {
        violations: w.viol,
        stats: w.stats,
        fp: w.fp.0,
    }
}

/// allocator_api2's Vec (a fork of std's) instantiated with `&Bump`, mirrored by std's Vec
fn exec_avec(bump: &'static Bump, b: &mut Option<allocator_api2::vec::Vec<u32, &'static Bump>>, sv: &mut Vec<u32>, op: &AOp) -> OpOutcome {
    use crate::w2_vec::{s_call, Ret};
    type AV = allocator_api2::vec::Vec<u32, &'static Bump>;
    if b.is_none() {
        *b = Some(b_call(|| AV::new_in(bump)).expect("new_in"));
        sv.clear();
    }
    if let AOp::Recreate(n) = op {
        let old = b.take();
        let _ = b_call(move || drop(old));
        let n = (*n).min(2000);
        let r = b_call(|| AV::with_capacity_in(n, bump));
        sv.clear();
        sv.shrink_to_fit();
        return match r {
            Ok(v) => {
                let ok = v.capacity() >= n;
                *b = Some(v);
                OpOutcome { b: Ok(Ret::Flag(ok)), s: Ok(Ret::Flag(true)), extra: None }
            }
            Err(()) => OpOutcome { b: Err(()), s: Ok(Ret::Unit), extra: None },
        };
    }
    if let AOp::IntoBoxedSliceAndBack = op {
        let v = b.take().unwrap();
        let r = b_call(move || {
            let bx: allocator_api2::boxed::Box<[u32], &'static Bump> = v.into_boxed_slice();
            let back: AV = bx.into_vec();
            back
        });
        return match r {
            Ok(v) => {
                *b = Some(v);
                OpOutcome { b: Ok(Ret::Unit), s: Ok(Ret::Unit), extra: None }
            }
            Err(()) => OpOutcome { b: Err(()), s: Ok(Ret::Unit), extra: None },
        };
    }
    let bv = b.as_mut().unwrap();
    let len = sv.len();
    let (rb, rs) = match op {
        AOp::Push(x) => (b_call(|| bv.push(*x)).map(|_| Ret::Unit), s_call(|| sv.push(*x)).map(|_| Ret::Unit)),
        AOp::Pop => (b_call(|| bv.pop()).map(|o| Ret::Text(format!("{:?}", o))), s_call(|| sv.pop()).map(|o| Ret::Text(format!("{:?}", o)))),
        AOp::Insert(p, x) => {
            let i = p.at(len);
            (b_call(|| bv.insert(i, *x)).map(|_| Ret::Unit), s_call(|| sv.insert(i, *x)).map(|_| Ret::Unit))
        }
        AOp::Remove(p) => {
            let i = p.at(len);
            (b_call(|| bv.remove(i)).map(|x| Ret::Num(x as u64)), s_call(|| sv.remove(i)).map(|x| Ret::Num(x as u64)))
        }
        AOp::Extend(n, x) => {
            let n = (*n).min(3000);
            let x = *x;
            (
                b_call(|| bv.extend((0..n as u32).map(|i| i.wrapping_mul(7).wrapping_add(x)))).map(|_| Ret::Unit),
                s_call(|| sv.extend((0..n as u32).map(|i| i.wrapping_mul(7).wrapping_add(x)))).map(|_| Ret::Unit),
            )
        }
        AOp::Truncate(p) => {
            let n = p.at(len);
            (b_call(|| bv.truncate(n)).map(|_| Ret::Unit), s_call(|| sv.truncate(n)).map(|_| Ret::Unit))
        }
        AOp::Reserve(n) => {
            let n = (*n).min(5000);
            let r = b_call(|| bv.reserve(n)).map(|_| Ret::Flag(bv.capacity() >= len + n));
            (r, Ok(Ret::Flag(true)))
        }
        AOp::ReserveExact(n) => {
            let n = (*n).min(5000);
            let r = b_call(|| bv.reserve_exact(n)).map(|_| Ret::Flag(bv.capacity() >= len + n));
            (r, Ok(Ret::Flag(true)))
        }
        AOp::ShrinkToFit => (b_call(|| bv.shrink_to_fit()).map(|_| Ret::Unit), Ok(Ret::Unit)),
        AOp::ShrinkTo(n) => {
            let n = *n;
            (b_call(|| bv.shrink_to(n)).map(|_| Ret::Unit), Ok(Ret::Unit))
        }
        AOp::Clear => (b_call(|| bv.clear()).map(|_| Ret::Unit), s_call(|| sv.clear()).map(|_| Ret::Unit)),
        AOp::Resize(p, x) => {
            let n = p.at(len).min(len + 3000);
            (b_call(|| bv.resize(n, *x)).map(|_| Ret::Unit), s_call(|| sv.resize(n, *x)).map(|_| Ret::Unit))
        }
        AOp::Dedup => (b_call(|| bv.dedup()).map(|_| Ret::Unit), s_call(|| sv.dedup()).map(|_| Ret::Unit)),
        AOp::SplitOff(p) => {
            let at = p.at(len);
            (
                b_call(|| {
                    let t = bv.split_off(at);
                    Ret::Text(format!("{:?}", &t[..]))
                }),
                s_call(|| {
                    let t = sv.split_off(at);
                    Ret::Text(format!("{:?}", &t[..]))
                }),
            )
        }
        AOp::CloneCmp => (
            b_call(|| {
                let c = bv.clone();
                Ret::Text(format!("{:?}", &c[..c.len().min(40)]))
            }),
            s_call(|| {
                let c = sv.clone();
                Ret::Text(format!("{:?}", &c[..c.len().min(40)]))
            }),
        ),
        AOp::Recreate(_) | AOp::IntoBoxedSliceAndBack => unreachable!(),
    };
    OpOutcome { b: rb, s: rs, extra: None }
}
