//! W2: `bumpalo::boxed::Box` programs mirrored by `std::boxed::Box` (C17, C15).

use crate::track::{self, Big, Elem, Tr, Zt};
use crate::w2_ops::*;
use crate::w2_vec::{b_call, s_call, OpOutcome, Ret, Side, TagIter};
use bumpalo::boxed::Box as BBox;
use bumpalo::collections::{CollectIn, Vec as BVec};
use bumpalo::Bump;
use std::any::Any;
use std::convert::TryFrom;
use std::future::Future;
use std::hash::{Hash, Hasher};
use std::pin::Pin;
use std::task::{Context, Poll, RawWaker, RawWakerVTable, Waker};

type T0 = Tr<0>;
type T1 = Tr<1>;

pub enum Held {
    U64(BBox<'static, u64>, Box<u64>),
    Unit(BBox<'static, ()>, Box<()>),
    Tr(BBox<'static, T0>, Box<T1>),
    Big(BBox<'static, Big<0>>, Box<Big<1>>),
    Zt(BBox<'static, Zt<0>>, Box<Zt<1>>),
    Arr4(BBox<'static, [T0; 4]>, Box<[T1; 4]>),
    Str(BBox<'static, str>, Box<str>),
    Slice(BBox<'static, [T0]>, Box<[T1]>),
    Any(BBox<'static, dyn Any>, Box<dyn Any>),
    AnySend(BBox<'static, dyn Any + Send>, Box<dyn Any + Send>),
    Pinned(Pin<BBox<'static, T0>>, Pin<Box<T1>>),
}

pub struct BoxClient {
    pub held: Vec<Held>,
    /// leaked over-aligned boxed values: (address, length, pattern seed)
    pub aligned: Vec<(usize, usize, u32)>,
}

#[repr(C, align(32))]
struct Al32([u8; 40]);
#[repr(C, align(64))]
struct Al64([u8; 64]);
#[repr(C, align(256))]
struct Al256([u8; 300]);
#[repr(C, align(4096))]
struct Al4096([u8; 4096]);

/// Serialize (feature `serde`) of a box: the same JSON as std's box
fn json<T: serde::Serialize + ?Sized>(x: &T) -> String {
    let _g = crate::simalloc::harness_scope();
    serde_json::to_string(x).unwrap_or_else(|e| format!("error {}", e))
}

fn k<E: Elem>(e: &E) -> (u32, u32) {
    (e.eid(), e.etag())
}

fn noop_waker() -> Waker {
    fn clone(_: *const ()) -> RawWaker {
        RawWaker::new(std::ptr::null(), &VT)
    }
    fn noop(_: *const ()) {}
    static VT: RawWakerVTable = RawWakerVTable::new(clone, noop, noop, noop);
    unsafe { Waker::from_raw(RawWaker::new(std::ptr::null(), &VT)) }
}

fn ok2(b: Side, s: Side) -> OpOutcome {
    OpOutcome { b, s, extra: None }
}

impl BoxClient {
    pub fn new() -> Self {
        BoxClient { held: Vec::new(), aligned: Vec::new() }
    }

    pub fn drop_all(&mut self) {
        let held = std::mem::take(&mut self.held);
        for h in held {
            Self::drop_held(h);
        }
    }

    fn drop_held(h: Held) -> (Side, Side) {
        macro_rules! d {
            ($b:expr, $s:expr) => {{
                let (b, s) = ($b, $s);
                (b_call(move || drop(b)).map(|_| Ret::Unit), s_call(move || drop(s)).map(|_| Ret::Unit))
            }};
        }
        match h {
            Held::U64(b, s) => d!(b, s),
            Held::Unit(b, s) => d!(b, s),
            Held::Tr(b, s) => d!(b, s),
            Held::Big(b, s) => d!(b, s),
            Held::Zt(b, s) => d!(b, s),
            Held::Arr4(b, s) => d!(b, s),
            Held::Str(b, s) => d!(b, s),
            Held::Slice(b, s) => d!(b, s),
            Held::Any(b, s) => d!(b, s),
            Held::AnySend(b, s) => d!(b, s),
            Held::Pinned(b, s) => d!(b, s),
        }
    }

    /// observable value of every held box, both worlds
    pub fn compare(&self) -> Result<(), String> {
        for &(a, n, seed) in &self.aligned {
            if let Some(k) = (0..n).find(|&k| unsafe { *(a as *const u8).add(k) } != crate::common::pat(seed, k)) {
                return Err(format!("byte {} of an over-aligned boxed value of {} bytes changed", k, n));
            }
        }
        for (i, h) in self.held.iter().enumerate() {
            let (b, s): (String, String) = match h {
                Held::U64(b, s) => (format!("{}", **b), format!("{}", **s)),
                Held::Unit(..) | Held::Zt(..) => (String::new(), String::new()),
                Held::Tr(b, s) => (format!("{:?}", k(&**b)), format!("{:?}", k(&**s))),
                Held::Big(b, s) => (format!("{:?}{}", k(&**b), b.intact()), format!("{:?}{}", k(&**s), s.intact())),
                Held::Arr4(b, s) => (format!("{:?}", b.iter().map(k).collect::<Vec<_>>()), format!("{:?}", s.iter().map(k).collect::<Vec<_>>())),
                Held::Str(b, s) => (b.to_string(), s.to_string()),
                Held::Slice(b, s) => (format!("{:?}", b.iter().map(k).collect::<Vec<_>>()), format!("{:?}", s.iter().map(k).collect::<Vec<_>>())),
                Held::Any(b, s) => (any_view(&**b), any_view(&**s)),
                Held::AnySend(b, s) => (any_view(&**b), any_view(&**s)),
                Held::Pinned(b, s) => (format!("{:?}", k(&**b)), format!("{:?}", k(&**s))),
            };
            if b != s {
                return Err(format!("box {}: {} vs std {}", i, b, s));
            }
        }
        Ok(())
    }

    pub fn reachable_ids(&self, out: &mut Vec<u32>) {
        for h in &self.held {
            match h {
                Held::Tr(b, _) => out.push(b.id),
                Held::Big(b, _) => out.push(b.t.id),
                Held::Arr4(b, _) => out.extend(b.iter().map(|e| e.id)),
                Held::Slice(b, _) => out.extend(b.iter().map(|e| e.id)),
                Held::Pinned(b, _) => out.push(b.id),
                Held::Any(b, _) => {
                    if let Some(t) = b.downcast_ref::<T0>() {
                        out.push(t.id)
                    }
                }
                Held::AnySend(b, _) => {
                    if let Some(t) = b.downcast_ref::<T0>() {
                        out.push(t.id)
                    }
                }
                _ => {}
            }
        }
    }

    fn take(&mut self, i: usize) -> Option<Held> {
        if self.held.is_empty() {
            None
        } else {
            let n = self.held.len();
            Some(self.held.remove(i % n))
        }
    }

    pub fn exec(&mut self, bump: &'static Bump, op: &BOp) -> OpOutcome {
        match op {
            BOp::New(v) => self.op_new(bump, v, false),
            BOp::Pin(v) => self.op_new(bump, v, true),
            BOp::Drop(i) => match self.take(*i) {
                Some(h) => {
                    let (b, s) = Self::drop_held(h);
                    ok2(b, s)
                }
                None => ok2(Ok(Ret::Unit), Ok(Ret::Unit)),
            },
            BOp::Deref(_) => ok2(Ok(Ret::Unit), Ok(Ret::Unit)), // compare() after every step does this
            BOp::Mutate(i, tag) => {
                if self.held.is_empty() {
                    return ok2(Ok(Ret::Unit), Ok(Ret::Unit));
                }
                let n = self.held.len();
                let id = track::fresh_id();
                match &mut self.held[*i % n] {
                    Held::U64(b, s) => ok2(b_call(|| **b = *tag as u64).map(|_| Ret::Unit), s_call(|| **s = *tag as u64).map(|_| Ret::Unit)),
                    Held::Tr(b, s) => {
                        let (ea, eb) = (T0::mk(id, *tag), T1::mk(id, *tag));
                        ok2(b_call(|| **b = ea).map(|_| Ret::Unit), s_call(|| **s = eb).map(|_| Ret::Unit))
                    }
                    Held::Slice(b, s) if !b.is_empty() => {
                        let (ea, eb) = (T0::mk(id, *tag), T1::mk(id, *tag));
                        let j = *tag as usize % b.len();
                        ok2(b_call(|| b[j] = ea).map(|_| Ret::Unit), s_call(|| s[j] = eb).map(|_| Ret::Unit))
                    }
                    Held::Arr4(b, s) => {
                        ok2(b_call(|| b.swap(0, 3)).map(|_| Ret::Unit), s_call(|| s.swap(0, 3)).map(|_| Ret::Unit))
                    }
                    Held::Str(b, s) => ok2(
                        b_call(|| b.make_ascii_uppercase()).map(|_| Ret::Unit),
                        s_call(|| s.make_ascii_uppercase()).map(|_| Ret::Unit),
                    ),
                    _ => ok2(Ok(Ret::Unit), Ok(Ret::Unit)),
                }
            }
            BOp::IntoInner(i) => match self.take(*i) {
                Some(Held::Tr(b, s)) => ok2(
                    b_call(move || {
                        let v = BBox::into_inner(b);
                        Ret::Elems(vec![k(&v)])
                    }),
                    s_call(move || {
                        let v = *s;
                        Ret::Elems(vec![k(&v)])
                    }),
                ),
                Some(Held::Big(b, s)) => ok2(
                    b_call(move || {
                        let v = BBox::into_inner(b);
                        Ret::Elems(vec![k(&v)])
                    }),
                    s_call(move || {
                        let v = *s;
                        Ret::Elems(vec![k(&v)])
                    }),
                ),
                Some(Held::U64(b, s)) => ok2(b_call(move || Ret::Num(BBox::into_inner(b))), s_call(move || Ret::Num(*s))),
                Some(Held::Zt(b, s)) => ok2(
                    b_call(move || drop(BBox::into_inner(b))).map(|_| Ret::Unit),
                    s_call(move || drop(*s)).map(|_| Ret::Unit),
                ),
                Some(Held::Arr4(b, s)) => ok2(
                    b_call(move || {
                        let v = BBox::into_inner(b);
                        Ret::Elems(v.iter().map(k).collect())
                    }),
                    s_call(move || {
                        let v = *s;
                        Ret::Elems(v.iter().map(k).collect())
                    }),
                ),
                Some(h) => {
                    self.held.push(h);
                    ok2(Ok(Ret::Unit), Ok(Ret::Unit))
                }
                None => ok2(Ok(Ret::Unit), Ok(Ret::Unit)),
            },
            BOp::RawRoundTrip(i) => {
                macro_rules! rt {
                    ($var:ident, $b:expr, $s:expr) => {{
                        let rb = b_call(move || unsafe { BBox::from_raw(BBox::into_raw($b)) });
                        let rs = s_call(move || unsafe { Box::from_raw(Box::into_raw($s)) });
                        if let (Ok(b), Ok(s)) = (rb, rs) {
                            self.held.push(Held::$var(b, s));
                        }
                        ok2(Ok(Ret::Unit), Ok(Ret::Unit))
                    }};
                }
                match self.take(*i) {
                    Some(Held::Tr(b, s)) => rt!(Tr, b, s),
                    Some(Held::Slice(b, s)) => rt!(Slice, b, s),
                    Some(Held::Str(b, s)) => rt!(Str, b, s),
                    Some(Held::Any(b, s)) => rt!(Any, b, s),
                    Some(Held::Zt(b, s)) => rt!(Zt, b, s),
                    Some(h) => {
                        self.held.push(h);
                        ok2(Ok(Ret::Unit), Ok(Ret::Unit))
                    }
                    None => ok2(Ok(Ret::Unit), Ok(Ret::Unit)),
                }
            }
            BOp::Leak(i) => match self.take(*i) {
                Some(Held::Tr(b, s)) => ok2(
                    b_call(move || Ret::Elems(vec![k(BBox::leak(b))])),
                    s_call(move || Ret::Elems(vec![k(Box::leak(s))])),
                ),
                Some(Held::Slice(b, s)) => ok2(
                    b_call(move || Ret::Elems(BBox::leak(b).iter().map(k).collect())),
                    s_call(move || Ret::Elems(Box::leak(s).iter().map(k).collect())),
                ),
                Some(Held::Str(b, s)) => ok2(
                    b_call(move || Ret::Text(BBox::leak(b).to_string())),
                    s_call(move || Ret::Text(Box::leak(s).to_string())),
                ),
                Some(h) => {
                    self.held.push(h);
                    ok2(Ok(Ret::Unit), Ok(Ret::Unit))
                }
                None => ok2(Ok(Ret::Unit), Ok(Ret::Unit)),
            },
            BOp::Downcast { i, matching, send } => {
                let h = match self.take(*i) {
                    Some(h) => h,
                    None => return ok2(Ok(Ret::Unit), Ok(Ret::Unit)),
                };
                match h {
                    Held::Any(b, s) if !*send => {
                        let holds_tr = b.is::<T0>();
                        if *matching == holds_tr {
                            // downcast to the type it really holds
                            if holds_tr {
                                let rb = b_call(move || b.downcast::<T0>());
                                let rs = s_call(move || s.downcast::<T1>());
                                self.settle_downcast(rb, rs, |b, s| Held::Tr(b, s))
                            } else {
                                let rb = b_call(move || b.downcast::<u64>());
                                let rs = s_call(move || s.downcast::<u64>());
                                self.settle_downcast(rb, rs, |b, s| Held::U64(b, s))
                            }
                        } else {
                            // wrong target: must hand the box back unchanged
                            let rb = b_call(move || b.downcast::<i8>());
                            let rs = s_call(move || s.downcast::<i8>());
                            match (rb, rs) {
                                (Ok(Err(b)), Ok(Err(s))) => {
                                    self.held.push(Held::Any(b, s));
                                    ok2(Ok(Ret::Flag(false)), Ok(Ret::Flag(false)))
                                }
                                (rb, rs) => ok2(
                                    rb.map(|r| Ret::Flag(r.is_ok())),
                                    rs.map(|r| Ret::Flag(r.is_ok())),
                                ),
                            }
                        }
                    }
                    Held::AnySend(b, s) => {
                        let holds_tr = b.is::<T0>();
                        if *matching && holds_tr {
                            let rb = b_call(move || b.downcast::<T0>());
                            let rs = s_call(move || s.downcast::<T1>());
                            match (rb, rs) {
                                (Ok(Ok(b)), Ok(Ok(s))) => {
                                    self.held.push(Held::Tr(b, s));
                                    ok2(Ok(Ret::Flag(true)), Ok(Ret::Flag(true)))
                                }
                                (rb, rs) => ok2(rb.map(|r| Ret::Flag(r.is_ok())), rs.map(|r| Ret::Flag(r.is_ok()))),
                            }
                        } else {
                            let rb = b_call(move || b.downcast::<i8>());
                            let rs = s_call(move || s.downcast::<i8>());
                            match (rb, rs) {
                                (Ok(Err(b)), Ok(Err(s))) => {
                                    self.held.push(Held::AnySend(b, s));
                                    ok2(Ok(Ret::Flag(false)), Ok(Ret::Flag(false)))
                                }
                                (rb, rs) => ok2(rb.map(|r| Ret::Flag(r.is_ok())), rs.map(|r| Ret::Flag(r.is_ok()))),
                            }
                        }
                    }
                    h => {
                        self.held.push(h);
                        ok2(Ok(Ret::Unit), Ok(Ret::Unit))
                    }
                }
            }
            BOp::ArrayToSlice(i) => match self.take(*i) {
                Some(Held::Arr4(b, s)) => {
                    let rb = b_call(move || BBox::<[T0]>::from(b));
                    let rs = s_call(move || -> Box<[T1]> { s });
                    if let (Ok(b), Ok(s)) = (rb, rs) {
                        self.held.push(Held::Slice(b, s));
                    }
                    ok2(Ok(Ret::Unit), Ok(Ret::Unit))
                }
                Some(h) => {
                    self.held.push(h);
                    ok2(Ok(Ret::Unit), Ok(Ret::Unit))
                }
                None => ok2(Ok(Ret::Unit), Ok(Ret::Unit)),
            },
            BOp::SliceToArray { i, matching: _ } => match self.take(*i) {
                Some(Held::Slice(b, s)) => {
                    let rb = b_call(move || BBox::<[T0; 4]>::try_from(b));
                    let rs = s_call(move || Box::<[T1; 4]>::try_from(s));
                    match (rb, rs) {
                        (Ok(Ok(b)), Ok(Ok(s))) => {
                            self.held.push(Held::Arr4(b, s));
                            ok2(Ok(Ret::Flag(true)), Ok(Ret::Flag(true)))
                        }
                        (Ok(Err(b)), Ok(Err(s))) => {
                            self.held.push(Held::Slice(b, s));
                            ok2(Ok(Ret::Flag(false)), Ok(Ret::Flag(false)))
                        }
                        (rb, rs) => ok2(rb.map(|r| Ret::Flag(r.is_ok())), rs.map(|r| Ret::Flag(r.is_ok()))),
                    }
                }
                Some(h) => {
                    self.held.push(h);
                    ok2(Ok(Ret::Unit), Ok(Ret::Unit))
                }
                None => ok2(Ok(Ret::Unit), Ok(Ret::Unit)),
            },
            BOp::VecToBox { n, tag0, spare } => {
                let ids: Vec<u32> = (0..*n).map(|_| track::fresh_id()).collect();
                let rb = b_call(|| {
                    let mut v = if *spare > 0 { BVec::with_capacity_in(*n + *spare, bump) } else { BVec::new_in(bump) };
                    v.extend(TagIter::<T0>::new(&ids, *tag0, HintKind::Exact));
                    if *tag0 % 2 == 0 {
                        v.into_boxed_slice()
                    } else {
                        BBox::<[T0]>::from(v)
                    }
                });
                let rs = s_call(|| TagIter::<T1>::new(&ids, *tag0, HintKind::Exact).collect::<Vec<T1>>().into_boxed_slice());
                self.push_slices(rb, rs)
            }
            BOp::FromIter { n, tag0, collect } => {
                let ids: Vec<u32> = (0..*n).map(|_| track::fresh_id()).collect();
                let rb = b_call(|| {
                    // Box::from_iter_in wants an ExactSizeIterator
                    let src: Vec<T0> = TagIter::<T0>::new(&ids, *tag0, HintKind::Exact).collect();
                    if *collect {
                        src.into_iter().collect_in::<BBox<[T0]>>(bump)
                    } else {
                        BBox::from_iter_in(src, bump)
                    }
                });
                let rs = s_call(|| TagIter::<T1>::new(&ids, *tag0, HintKind::Exact).collect::<Box<[T1]>>());
                self.push_slices(rb, rs)
            }
            BOp::IterBox { n, front, back } => {
                let n = *n as u32 % 50;
                let run = |mut it: &mut dyn DoubleEndedIterator<Item = u32>, len0: usize| {
                    let mut out = vec![len0 as u32];
                    for _ in 0..*front {
                        out.push(it.next().unwrap_or(9999));
                    }
                    for _ in 0..*back {
                        out.push(it.next_back().unwrap_or(9999));
                    }
                    out.push(it.size_hint().0 as u32);
                    out.push((&mut it).nth(1).unwrap_or(9999));
                    out.push((&mut it).nth_back(1).unwrap_or(9999));
                    out.push(it.size_hint().1.map(|h| h as u32).unwrap_or(9998));
                    out.push((&mut it).rev().nth(*front as usize % 3).unwrap_or(9999));
                    out.extend(it);
                    out
                };
                let (skip, skip_back) = (*front as usize % 4, *back as usize % 4);
                ok2(
                    b_call(|| {
                        let mut b = BBox::new_in(0..n, bump);
                        let l = b.len();
                        let r = run(&mut b, l);
                        // the consuming adaptors, each on a fresh boxed iterator
                        let whole = (
                            BBox::new_in(0..n, bump).last(),
                            BBox::new_in(0..n, bump).count(),
                            BBox::new_in(0..n, bump).skip(skip).rev().nth(skip_back),
                            BBox::new_in((0..n).filter(|x| x % 3 != 0), bump).size_hint(),
                            BBox::new_in(0..n, bump).fold(0u64, |a, x| a * 3 + x as u64),
                        );
                        Ret::Text(format!("{:?} {:?}", r, whole))
                    }),
                    s_call(|| {
                        let mut b = Box::new(0..n);
                        let l = b.len();
                        let r = run(&mut b, l);
                        let whole = (
                            Box::new(0..n).last(),
                            Box::new(0..n).count(),
                            Box::new(0..n).skip(skip).rev().nth(skip_back),
                            Box::new((0..n).filter(|x| x % 3 != 0)).size_hint(),
                            Box::new(0..n).fold(0u64, |a, x| a * 3 + x as u64),
                        );
                        Ret::Text(format!("{:?} {:?}", r, whole))
                    }),
                )
            }
            BOp::Fmt(i) => {
                if self.held.is_empty() {
                    return ok2(Ok(Ret::Unit), Ok(Ret::Unit));
                }
                let n = self.held.len();
                match &self.held[*i % n] {
                    Held::U64(b, s) => ok2(
                        b_call(|| Ret::Text(format!("{} {:?} {:5} {} {}", b, b, b, format!("{:p}", *b).starts_with("0x"), json(b)))),
                        s_call(|| Ret::Text(format!("{} {:?} {:5} {} {}", s, s, s, format!("{:p}", *s).starts_with("0x"), json(s)))),
                    ),
                    Held::Str(b, s) => ok2(
                        b_call(|| Ret::Text(format!("{} {:?} {:>9}", b, b, b))),
                        s_call(|| Ret::Text(format!("{} {:?} {:>9}", s, s, s))),
                    ),
                    Held::Tr(b, s) => ok2(b_call(|| Ret::Text(format!("{:?} {}", b, json(b)))), s_call(|| Ret::Text(format!("{:?} {}", s, json(s))))),
                    Held::Slice(b, s) => ok2(b_call(|| Ret::Text(format!("{:?}", b))), s_call(|| Ret::Text(format!("{:?}", s)))),
                    Held::Arr4(b, s) => ok2(b_call(|| Ret::Text(format!("{:?} {}", b, json(b)))), s_call(|| Ret::Text(format!("{:?} {}", s, json(s))))),
                    _ => ok2(Ok(Ret::Unit), Ok(Ret::Unit)),
                }
            }
            BOp::CmpHash(i, j) => {
                if self.held.is_empty() {
                    return ok2(Ok(Ret::Unit), Ok(Ret::Unit));
                }
                let n = self.held.len();
                fn h<T: Hash + ?Sized>(x: &T) -> u64 {
                    let mut s = std::collections::hash_map::DefaultHasher::new();
                    x.hash(&mut s);
                    s.finish()
                }
                match (&self.held[*i % n], &self.held[*j % n]) {
                    (Held::U64(b1, s1), Held::U64(b2, s2)) => ok2(
                        b_call(|| Ret::Text(format!("{:?}", (b1 == b2, b1 != b2, b1 < b2, b1 <= b2, b1 > b2, b1 >= b2, b1.partial_cmp(b2), b1.cmp(b2), h(b1), h(b2), b1.max(b2) == b2, b1.min(b2) == b1)))),
                        s_call(|| Ret::Text(format!("{:?}", (s1 == s2, s1 != s2, s1 < s2, s1 <= s2, s1 > s2, s1 >= s2, s1.partial_cmp(s2), s1.cmp(s2), h(s1), h(s2), s1.max(s2) == s2, s1.min(s2) == s1)))),
                    ),
                    (Held::Str(b1, s1), Held::Str(b2, s2)) => ok2(
                        b_call(|| Ret::Text(format!("{:?}", (b1 == b2, b1 != b2, b1 < b2, b1 <= b2, b1 > b2, b1 >= b2, b1.partial_cmp(b2), b1.cmp(b2), h(b1), h(b2))))),
                        s_call(|| Ret::Text(format!("{:?}", (s1 == s2, s1 != s2, s1 < s2, s1 <= s2, s1 > s2, s1 >= s2, s1.partial_cmp(s2), s1.cmp(s2), h(s1), h(s2))))),
                    ),
                    (Held::Tr(b1, s1), Held::Tr(b2, s2)) => ok2(
                        b_call(|| Ret::Text(format!("{:?}", (b1 == b2, h(b1), h(b2))))),
                        s_call(|| Ret::Text(format!("{:?}", (s1 == s2, h(s1), h(s2))))),
                    ),
                    _ => ok2(Ok(Ret::Unit), Ok(Ret::Unit)),
                }
            }
            BOp::Poll(n) => {
                let w = noop_waker();
                ok2(
                    b_call(|| {
                        let mut b = BBox::new_in(std::future::ready(*n), bump);
                        let mut cx = Context::from_waker(&w);
                        match Pin::new(&mut b).poll(&mut cx) {
                            Poll::Ready(v) => Ret::Num(v as u64),
                            Poll::Pending => Ret::Unit,
                        }
                    }),
                    s_call(|| {
                        let mut b = Box::new(std::future::ready(*n));
                        let mut cx = Context::from_waker(&w);
                        match Pin::new(&mut b).poll(&mut cx) {
                            Poll::Ready(v) => Ret::Num(v as u64),
                            Poll::Pending => Ret::Unit,
                        }
                    }),
                )
            }
            BOp::Closure(n) => {
                let n = *n;
                ok2(
                    b_call(|| {
                        let c = BBox::new_in(move |x: u32| x.wrapping_mul(3).wrapping_add(n), bump);
                        let raw = BBox::into_raw(c) as *mut dyn Fn(u32) -> u32;
                        let d: BBox<dyn Fn(u32) -> u32> = unsafe { BBox::from_raw(raw) };
                        Ret::Num((*d)(7) as u64 + (d)(1) as u64)
                    }),
                    s_call(|| {
                        let d: Box<dyn Fn(u32) -> u32> = Box::new(move |x: u32| x.wrapping_mul(3).wrapping_add(n));
                        Ret::Num((*d)(7) as u64 + (d)(1) as u64)
                    }),
                )
            }
            BOp::FloatCmp { a, b, same, slice } => {
                const VALS: [f64; 6] = [f64::NAN, 0.0, -0.0, 1.5, f64::INFINITY, -f64::NAN];
                let (x, y) = (VALS[*a as usize % 6], VALS[*b as usize % 6]);
                let (same, slice) = (*same, *slice);
                fn all<T: PartialOrd + ?Sized>(p: &T, q: &T) -> String {
                    format!("{:?} {:?}", (p == q, p != q, p < q, p <= q, p > q, p >= q, p.partial_cmp(q)), (p.eq(q), p.ne(q), p.lt(q), p.le(q), p.gt(q), p.ge(q)))
                }
                ok2(
                    b_call(|| {
                        if slice {
                            let p: BBox<[f64]> = BBox::new_in([1.0, x, 2.0], bump).into();
                            let q: BBox<[f64]> = BBox::new_in([1.0, y, 2.0], bump).into();
                            Ret::Text(if same { all(&p, &p) } else { all(&p, &q) })
                        } else {
                            let p = BBox::new_in(x, bump);
                            let q = BBox::new_in(y, bump);
                            Ret::Text(if same { all(&p, &p) } else { all(&p, &q) })
                        }
                    }),
                    s_call(|| {
                        if slice {
                            let p: Box<[f64]> = Box::new([1.0, x, 2.0]);
                            let q: Box<[f64]> = Box::new([1.0, y, 2.0]);
                            Ret::Text(if same { all(&p, &p) } else { all(&p, &q) })
                        } else {
                            let p = Box::new(x);
                            let q = Box::new(y);
                            Ret::Text(if same { all(&p, &p) } else { all(&p, &q) })
                        }
                    }),
                )
            }
            BOp::OverAligned { log2, seed } => {
                let seed = *seed;
                macro_rules! boxed {
                    ($T:ident, $n:expr) => {{
                        let mut v = $T([0u8; $n]);
                        for k in 0..$n {
                            v.0[k] = crate::common::pat(seed, k);
                        }
                        b_call(|| BBox::leak(BBox::new_in(v, bump)) as *mut $T as usize).map(|a| (a, $n, std::mem::align_of::<$T>()))
                    }};
                }
                let r = match log2 {
                    5 => boxed!(Al32, 40),
                    6 => boxed!(Al64, 64),
                    8 => boxed!(Al256, 300),
                    _ => boxed!(Al4096, 4096),
                };
                let mut extra = None;
                if let Ok((a, n, al)) = r {
                    let mut held = Vec::new();
                    crate::simalloc::held(0, &mut held);
                    if a % al != 0 {
                        extra = Some(("C17", "boxed-value-misaligned", format!("align {} address % align = {}", al, a % al)));
                    } else if !held.iter().any(|e| a >= e.user && a + n <= e.user + e.size) {
                        extra = Some(("C17", "boxed-value-outside-arena-memory", format!("{} bytes, align {}", n, al)));
                    } else {
                        self.aligned.push((a, n, seed));
                    }
                }
                OpOutcome { b: r.map(|_| Ret::Unit), s: Ok(Ret::Unit), extra }
            }
            BOp::HasherBox(n) => ok2(
                b_call(|| {
                    let mut b = BBox::new_in(std::collections::hash_map::DefaultHasher::new(), bump);
                    b.write_u32(*n);
                    b.write(&[1, 2, 3]);
                    b.write_u8(9);
                    b.write_usize(5);
                    b.write_i64(-3);
                    Ret::Num(b.finish())
                }),
                s_call(|| {
                    let mut b = Box::new(std::collections::hash_map::DefaultHasher::new());
                    b.write_u32(*n);
                    b.write(&[1, 2, 3]);
                    b.write_u8(9);
                    b.write_usize(5);
                    b.write_i64(-3);
                    Ret::Num(b.finish())
                }),
            ),
        }
    }

    fn settle_downcast<X: 'static, Y: 'static>(
        &mut self,
        rb: Result<Result<BBox<'static, X>, BBox<'static, dyn Any>>, ()>,
        rs: Result<Result<Box<Y>, Box<dyn Any>>, ()>,
        mk: impl FnOnce(BBox<'static, X>, Box<Y>) -> Held,
    ) -> OpOutcome {
        match (rb, rs) {
            (Ok(Ok(b)), Ok(Ok(s))) => {
                self.held.push(mk(b, s));
                ok2(Ok(Ret::Flag(true)), Ok(Ret::Flag(true)))
            }
            (Ok(Err(b)), Ok(Err(s))) => {
                self.held.push(Held::Any(b, s));
                ok2(Ok(Ret::Flag(false)), Ok(Ret::Flag(false)))
            }
            (rb, rs) => ok2(rb.map(|r| Ret::Flag(r.is_ok())), rs.map(|r| Ret::Flag(r.is_ok()))),
        }
    }

    fn push_slices(&mut self, rb: Result<BBox<'static, [T0]>, ()>, rs: Result<Box<[T1]>, ()>) -> OpOutcome {
        match (rb, rs) {
            (Ok(b), Ok(s)) => {
                let r = (Ret::Elems(b.iter().map(k).collect()), Ret::Elems(s.iter().map(k).collect()));
                self.held.push(Held::Slice(b, s));
                ok2(Ok(r.0), Ok(r.1))
            }
            (rb, rs) => ok2(rb.map(|_| Ret::Unit), rs.map(|_| Ret::Unit)),
        }
    }

    fn op_new(&mut self, bump: &'static Bump, v: &BVal, pin: bool) -> OpOutcome {
        let id = track::fresh_id();
        macro_rules! mk {
            ($var:ident, $b:expr, $s:expr) => {{
                let rb = b_call(|| $b);
                let rs = s_call(|| $s);
                match (rb, rs) {
                    (Ok(b), Ok(s)) => {
                        self.held.push(Held::$var(b, s));
                        ok2(Ok(Ret::Unit), Ok(Ret::Unit))
                    }
                    (rb, rs) => ok2(rb.map(|_| Ret::Unit), rs.map(|_| Ret::Unit)),
                }
            }};
        }
        match v {
            BVal::U64(x) => mk!(U64, BBox::new_in(*x, bump), Box::new(*x)),
            BVal::Unit => mk!(Unit, BBox::new_in((), bump), Box::new(())),
            BVal::Tr(tag) if pin => {
                let (ea, eb) = (T0::mk(id, *tag), T1::mk(id, *tag));
                mk!(Pinned, BBox::pin_in(ea, bump), Box::pin(eb))
            }
            BVal::Tr(tag) => {
                let (ea, eb) = (T0::mk(id, *tag), T1::mk(id, *tag));
                mk!(Tr, BBox::new_in(ea, bump), Box::new(eb))
            }
            BVal::Big(tag) => {
                let (ea, eb) = (Big::<0>::mk(id, *tag), Big::<1>::mk(id, *tag));
                mk!(Big, BBox::new_in(ea, bump), Box::new(eb))
            }
            BVal::Zt => {
                let (ea, eb) = (Zt::<0>::new(), Zt::<1>::new());
                mk!(Zt, BBox::new_in(ea, bump), Box::new(eb))
            }
            BVal::Arr4(tag0) => {
                let ids: Vec<u32> = (0..4).map(|_| track::fresh_id()).collect();
                let a: [T0; 4] = std::array::from_fn(|i| T0::mk(ids[i], tag0 + i as u32));
                let b: [T1; 4] = std::array::from_fn(|i| T1::mk(ids[i], tag0 + i as u32));
                mk!(Arr4, BBox::new_in(a, bump), Box::new(b))
            }
            BVal::Str(t) => mk!(Str, unsafe { BBox::from_raw(bump.alloc_str(t) as *mut str) }, t.clone().into_boxed_str()),
            BVal::SliceTr { n, tag0 } => {
                let ids: Vec<u32> = (0..*n).map(|_| track::fresh_id()).collect();
                let rb = b_call(|| {
                    let src: Vec<T0> = TagIter::<T0>::new(&ids, *tag0, HintKind::Exact).collect();
                    BBox::from_iter_in(src, bump)
                });
                let rs = s_call(|| TagIter::<T1>::new(&ids, *tag0, HintKind::Exact).collect::<Box<[T1]>>());
                self.push_slices(rb, rs)
            }
            BVal::AnyTr(tag) => {
                let (ea, eb) = (T0::mk(id, *tag), T1::mk(id, *tag));
                if tag % 2 == 0 {
                    mk!(
                        Any,
                        unsafe { BBox::from_raw(BBox::into_raw(BBox::new_in(ea, bump)) as *mut dyn Any) },
                        Box::new(eb) as Box<dyn Any>
                    )
                } else {
                    mk!(
                        AnySend,
                        unsafe { BBox::from_raw(BBox::into_raw(BBox::new_in(ea, bump)) as *mut (dyn Any + Send)) },
                        Box::new(eb) as Box<dyn Any + Send>
                    )
                }
            }
            BVal::DefaultSlice => mk!(Slice, BBox::<[T0]>::default(), Box::<[T1]>::default()),
            BVal::DefaultStr => mk!(Str, BBox::<str>::default(), Box::<str>::default()),
            BVal::AnyU32(x) => mk!(
                Any,
                unsafe { BBox::from_raw(BBox::into_raw(BBox::new_in(*x as u64, bump)) as *mut dyn Any) },
                Box::new(*x as u64) as Box<dyn Any>
            ),
        }
    }
}

fn any_view(a: &dyn Any) -> String {
    if let Some(t) = a.downcast_ref::<T0>() {
        format!("tr{:?}", (t.id, t.tag))
    } else if let Some(t) = a.downcast_ref::<T1>() {
        format!("tr{:?}", (t.id, t.tag))
    } else if let Some(x) = a.downcast_ref::<u64>() {
        format!("u64:{}", x)
    } else {
        "?".into()
    }
}
