//! Seeded generation of W2 scripts: client scripts from their own sub-streams, interleaved by
//! a seeded scheduler; the resulting flat schedule is what the replay file stores.

use crate::rng::Rng;
use crate::simalloc::Placement;
use crate::w2_ops::*;

const CHARS: [char; 12] = ['a', 'b', 'Z', '0', ' ', 'é', 'ß', 'Ω', '€', '語', '😀', '\u{10FFFF}'];

thread_local! {
    /// set while generating a "megabyte" script: several of its texts are megabytes long, so that
    /// a buffer that is already huge meets another huge piece
    static MEGA: std::cell::Cell<bool> = std::cell::Cell::new(false);
}

pub fn text(r: &mut Rng, max: usize) -> String {
    // now and then a long text: thresholds in the code under test (chunk sizes, word-at-a-time
    // loops, amortisation steps) lie well above the usual handful of characters
    if r.chance(1, 2500) || (MEGA.with(|m| m.get()) && r.chance(1, 5)) {
        // megabytes: buffer sizes at which allocators and growth policies change strategy
        // (huge pages, capped doubling); built from a short unit to stay cheap
        let unit: String = (0..1 + r.usize_below(7)).map(|_| *r.pick(&CHARS)).collect();
        let want = (1usize << 20) + r.usize_below(3 << 19);
        return unit.repeat(want / unit.len().max(1) + 1);
    }
    let n = if r.chance(1, 60) {
        if r.chance(1, 12) {
            // around 2^16 bytes
            25_000 + r.usize_below(15_000)
        } else {
            r.usize_below(3000)
        }
    } else {
        r.usize_below(max + 1)
    };
    (0..n).map(|_| *r.pick(&CHARS)).collect()
}

pub fn pos(r: &mut Rng) -> Pos {
    match r.below(12) {
        0..=6 => Pos::L(-(r.below(6) as i32)),
        7 => Pos::L(r.below(3) as i32),
        8 => Pos::A(r.below(8) as usize),
        9 => Pos::A(r.below(40) as usize),
        10 => Pos::M(r.below(3) as u8),
        _ if r.chance(1, 2) => Pos::C(r.range(-2, 2) as i8),
        _ => Pos::L(-(r.below(30) as i32)),
    }
}

fn bd(r: &mut Rng, lo: bool) -> Bd {
    match r.below(10) {
        0 | 1 => Bd::U,
        2..=6 => {
            if lo {
                Bd::I(pos_lo(r))
            } else {
                Bd::E(pos(r))
            }
        }
        7 | 8 => {
            if lo {
                Bd::E(pos_lo(r))
            } else {
                Bd::I(pos(r))
            }
        }
        _ => Bd::I(Pos::M(0)),
    }
}
fn pos_lo(r: &mut Rng) -> Pos {
    match r.below(6) {
        0..=2 => Pos::A(r.below(5) as usize),
        3 => Pos::L(-(r.below(8) as i32)),
        4 => Pos::A(0),
        _ => pos(r),
    }
}
pub fn range(r: &mut Rng) -> Rng2 {
    Rng2 { lo: bd(r, true), hi: bd(r, false) }
}

pub fn consume(r: &mut Rng) -> Consume {
    match r.below(8) {
        0..=2 => Consume::All,
        3 => Consume::AllBack,
        4 | 5 => Consume::Mixed(r.below(3) as u8, r.below(3) as u8),
        6 => Consume::DropNow,
        _ => {
            if r.chance(1, 2) {
                Consume::Forget
            } else {
                Consume::TakeForget(1 + r.below(3) as u8)
            }
        }
    }
}

fn pred(r: &mut Rng) -> Pred {
    match r.below(6) {
        0..=2 => Pred::Mod(2 + r.below(3) as u32, r.below(2) as u32),
        3 => Pred::Lt(r.below(11) as u32),
        4 => Pred::True,
        _ => Pred::False,
    }
}
fn char_pred(r: &mut Rng) -> Pred {
    match r.below(5) {
        0 | 1 => Pred::Lt(128),
        2 => Pred::Mod(2, r.below(2) as u32),
        3 => Pred::Lt(0x800),
        _ => Pred::Mod(3, 0),
    }
}

fn hint(r: &mut Rng) -> HintKind {
    *r.pick(&[HintKind::Exact, HintKind::Exact, HintKind::Unknown, HintKind::Low])
}

fn small(r: &mut Rng) -> usize {
    if r.chance(1, 80) {
        if r.chance(1, 10) {
            // element counts around 2^16 (and byte sizes around 2^18 .. 2^21 for wider elements)
            return 65_000 + r.below(1200) as usize;
        }
        return 300 + r.below(6000) as usize;
    }
    match r.below(10) {
        0 => 0,
        1..=6 => r.below(6) as usize,
        7 | 8 => r.below(40) as usize,
        _ => r.below(300) as usize,
    }
}

fn vctor(r: &mut Rng) -> VCtor {
    if r.chance(1, 6) {
        let n = small(r).min(40);
        let stop_at = if r.chance(1, 2) && n > 0 { Some(r.usize_below(n)) } else { None };
        return if r.chance(1, 2) {
            VCtor::CollectInOption { n, tag0: r.below(11) as u32, stop_at }
        } else {
            VCtor::CollectInResult { n, tag0: r.below(11) as u32, stop_at }
        };
    }
    match r.below(7) {
        0 => VCtor::New,
        1 => VCtor::WithCap(small(r)),
        2 | 3 => VCtor::FromIter { n: small(r), tag0: r.below(11) as u32, hint: hint(r) },
        4 => VCtor::CollectIn { n: small(r), tag0: r.below(11) as u32 },
        5 => VCtor::MacroRepeat { n: small(r), tag: r.below(11) as u32 },
        _ => VCtor::MacroList { n: 3, tag0: r.below(8) as u32 },
    }
}

pub fn vop(r: &mut Rng, vt: VT) -> VOp {
    let tag = r.below(11) as u32;
    let copy = matches!(vt, VT::U8 | VT::U32);
    loop {
        let op = match r.below(52) {
            46 | 47 => {
                if r.chance(1, 2) {
                    VOp::IterHold
                } else {
                    VOp::DrainHold(range(r))
                }
            }
            48..=50 => VOp::IterNext { back: r.chance(1, 3) },
            51 => VOp::IterRelease,
            0..=6 => VOp::Push(tag),
            7 | 8 => VOp::Pop,
            9 | 10 => VOp::Insert(pos(r), tag),
            11 | 12 => VOp::Remove(pos(r)),
            13 => VOp::SwapRemove(pos(r)),
            14 => VOp::Truncate(pos(r)),
            15 => {
                if r.chance(1, 4) {
                    VOp::Clear
                } else {
                    VOp::Truncate(Pos::L(-1))
                }
            }
            16 => VOp::Resize(pos(r), tag),
            17 | 18 => VOp::Extend { n: small(r), tag0: tag, hint: hint(r) },
            19 => VOp::ExtendFromSlice { n: small(r), tag0: tag },
            20 if copy => VOp::ExtendCopy { n: small(r), tag0: tag },
            21 if copy => VOp::ExtendSlicesCopy { ns: (0..r.below(4)).map(|_| small(r)).collect(), tag0: tag },
            22 if copy => VOp::ExtendRef { n: small(r), tag0: tag },
            23 => VOp::Append { n: small(r), tag0: tag },
            24 => VOp::SplitOff(pos(r)),
            25 | 26 => VOp::Drain(range(r), consume(r)),
            27 | 28 => VOp::Splice(range(r), small(r).min(40), tag, hint(r), consume(r)),
            29 => VOp::Retain(pred(r)),
            30 => VOp::DrainFilter(pred(r), consume_df(r)),
            31 => VOp::Dedup,
            32 => VOp::DedupBy(*r.pick(&[Same::Eq, Same::Bucket(2), Same::Bucket(3), Same::Succ])),
            33 => VOp::DedupByKey(1 + r.below(3) as u32),
            34 => VOp::Reserve(reserve_pos(r)),
            35 => VOp::ReserveExact(reserve_pos(r)),
            36 => VOp::TryReserve(reserve_pos(r)),
            37 => {
                if r.chance(1, 2) {
                    VOp::TryReserveExact(reserve_pos(r))
                } else {
                    VOp::TryReserveLimited { n: 1 + small(r), exact: r.chance(1, 2), headroom: *r.pick(&[0usize, 0, 1, 64, 500, 5000]) }
                }
            }
            38 => {
                if r.chance(1, 3) {
                    VOp::RawPartsRoundTrip
                } else {
                    VOp::ShrinkToFit
                }
            }
            39 => match r.below(4) {
                0 => VOp::RawPush(tag),
                1 => VOp::SetLenShrink(pos(r)),
                _ => VOp::CloneCmp,
            },
            40 => match r.below(8) {
                0 | 1 => VOp::IntoIter(consume(r)),
                2 => VOp::IntoBumpSlice { mutable: r.chance(1, 2) },
                3 => VOp::IntoBoxedSlice,
                4 => VOp::DropHeldBox,
                5 => VOp::DropVec,
                _ => VOp::Recreate(vctor(r)),
            },
            41 if vt == VT::U8 => VOp::Write { n: small(r), seed: r.next() as u32, all: r.chance(1, 2) },
            42 => VOp::SetIndex(pos(r), tag),
            43 => VOp::GetIndex(pos(r)),
            44 => {
                if r.chance(1, 2) {
                    VOp::Swap(pos(r), pos(r))
                } else {
                    VOp::Reverse
                }
            }
            45 => VOp::CmpHash,
            _ => continue,
        };
        return op;
    }
}

fn consume_df(r: &mut Rng) -> Consume {
    // DrainFilter is forward-only; forgetting it leaks everything not handed out (by design)
    match r.below(6) {
        0 | 1 => Consume::All,
        2 => Consume::Mixed(r.below(3) as u8, 0),
        3 => Consume::DropNow,
        4 => Consume::TakeForget(r.below(3) as u8),
        _ => Consume::All,
    }
}

fn reserve_pos(r: &mut Rng) -> Pos {
    match r.below(8) {
        0..=4 => Pos::A(small(r)),
        5 => Pos::A(0),
        6 => Pos::M(r.below(2) as u8),
        _ if r.chance(1, 2) => Pos::S(r.range(-1, 2) as i8),
        _ => Pos::A(1 + r.below(2000) as usize),
    }
}

fn sctor(r: &mut Rng) -> SCtor {
    match r.below(9) {
        0 => SCtor::New,
        1 => SCtor::WithCap(small(r)),
        2 => SCtor::FromStr(text(r, 12)),
        3 => SCtor::FromIter(text(r, 12)),
        4 => SCtor::CollectIn(text(r, 12)),
        5 => SCtor::FromUtf8(noisy_bytes(r)),
        6 => SCtor::FromUtf8Lossy(noisy_bytes(r)),
        7 => SCtor::FromUtf16(noisy_u16(r)),
        _ => SCtor::FromStr(text(r, 40)),
    }
}

pub fn noisy_bytes(r: &mut Rng) -> Vec<u8> {
    let mut v = text(r, 10).into_bytes();
    const BAD: [u8; 24] = [
        0x00, 0x7F, 0x80, 0x8F, 0x90, 0x9F, 0xA0, 0xBF, 0xC0, 0xC1, 0xC2, 0xDF, 0xE0, 0xE1, 0xEC, 0xED, 0xEE, 0xEF, 0xF0, 0xF1, 0xF3, 0xF4, 0xF5, 0xFF,
    ];
    for _ in 0..r.below(4) {
        match r.below(4) {
            0 if !v.is_empty() => {
                let i = r.usize_below(v.len());
                v.truncate(i);
            }
            1 => {
                let i = r.usize_below(v.len() + 1);
                v.insert(i, *r.pick(&BAD));
            }
            2 if !v.is_empty() => {
                let i = r.usize_below(v.len());
                v[i] = *r.pick(&BAD);
            }
            _ => v.extend_from_slice(&[0xED, 0xA0 + r.below(32) as u8, 0x80]),
        }
    }
    v
}

pub fn noisy_u16(r: &mut Rng) -> Vec<u16> {
    let mut v: Vec<u16> = text(r, 8).encode_utf16().collect();
    const S: [u16; 8] = [0xD7FF, 0xD800, 0xDBFF, 0xDC00, 0xDFFF, 0xE000, 0xFFFF, 0x0000];
    for _ in 0..r.below(3) {
        let i = r.usize_below(v.len() + 1);
        v.insert(i, *r.pick(&S));
    }
    v
}

pub fn sop(r: &mut Rng) -> SOp {
    match r.below(34) {
        0..=3 => SOp::Push(*r.pick(&CHARS)),
        4..=6 => SOp::PushStr(text(r, 6)),
        7 | 8 => SOp::Pop,
        9 | 10 => SOp::Insert(pos(r), *r.pick(&CHARS)),
        11 | 12 => SOp::InsertStr(pos(r), text(r, 5)),
        13 | 14 => SOp::Remove(pos(r)),
        15 => SOp::Truncate(pos(r)),
        16 => {
            if r.chance(1, 4) {
                SOp::Clear
            } else {
                SOp::Truncate(pos(r))
            }
        }
        17 | 18 => SOp::Retain(char_pred(r)),
        19 | 20 => SOp::Drain(range(r), consume(r)),
        21 | 22 => SOp::ReplaceRange(range(r), text(r, 5)),
        23 => SOp::SplitOff(pos(r)),
        24 => SOp::ExtendChars(text(r, 6)),
        25 => SOp::ExtendStrs((0..r.below(4)).map(|_| text(r, 4)).collect()),
        26 => SOp::CloneCmp,
        27 => SOp::Format(r.below(1000) as u32, text(r, 4)),
        28 => match r.below(4) {
            0 => SOp::IntoBumpStr,
            1 => {
                if r.chance(1, 2) {
                    SOp::IntoBytesRoundTrip
                } else {
                    SOp::UnsafeRoundTrip(r.below(3) as u8)
                }
            }
            _ => SOp::Recreate(sctor(r)),
        },
        29 => SOp::Reserve(if r.chance(1, 4) { Pos::S(r.range(-1, 2) as i8) } else { Pos::A(small(r)) }),
        30 => {
            if r.chance(1, 2) {
                SOp::ReserveExact(Pos::A(small(r)))
            } else {
                SOp::ShrinkToFit
            }
        }
        31 => SOp::Index(range(r)),
        32 => SOp::AddStr(text(r, 4)),
        _ => SOp::CmpHash,
    }
}

fn bval(r: &mut Rng) -> BVal {
    let tag = r.below(11) as u32;
    match r.below(11) {
        0 => BVal::U64(r.next() % 100),
        1 => BVal::Unit,
        2 | 3 => BVal::Tr(tag),
        4 => BVal::Big(tag),
        5 => BVal::Zt,
        6 => BVal::Arr4(tag),
        7 => BVal::Str(text(r, 8)),
        8 => BVal::SliceTr { n: [0, 1, 3, 4, 4, 7][r.usize_below(6)], tag0: tag },
        9 => BVal::AnyTr(tag),
        _ => match r.below(4) {
            0 => BVal::DefaultSlice,
            1 => BVal::DefaultStr,
            _ => BVal::AnyU32(tag),
        },
    }
}

pub fn bop(r: &mut Rng) -> BOp {
    let i = r.usize_below(8);
    match r.below(31) {
        0..=6 => BOp::New(bval(r)),
        7..=9 => BOp::Drop(i),
        10 => BOp::Deref(i),
        11 | 12 => BOp::Mutate(i, r.below(11) as u32),
        13 | 14 => BOp::IntoInner(i),
        15 => BOp::RawRoundTrip(i),
        16 => BOp::Leak(i),
        17 => BOp::Pin(BVal::Tr(r.below(11) as u32)),
        18 | 19 => BOp::Downcast { i, matching: r.chance(1, 2), send: r.chance(1, 2) },
        20 => BOp::ArrayToSlice(i),
        21 => BOp::SliceToArray { i, matching: true },
        22 => BOp::VecToBox { n: small(r).min(20), tag0: r.below(11) as u32, spare: if r.chance(1, 4) { *r.pick(&[1usize, 7, 100, 511, 512, 513, 700, 5000]) } else { 0 } },
        23 => BOp::FromIter { n: small(r).min(20), tag0: r.below(11) as u32, collect: r.chance(1, 2) },
        24 => BOp::IterBox { n: r.usize_below(12), front: r.below(4) as u8, back: r.below(4) as u8 },
        25 => BOp::Fmt(i),
        26 => BOp::CmpHash(i, r.usize_below(8)),
        27 => BOp::Poll(r.below(100) as u32),
        28 => BOp::Closure(r.below(100) as u32),
        29 => BOp::OverAligned { log2: *r.pick(&[5u8, 6, 8, 12]), seed: r.next() as u32 },
        _ if r.chance(1, 2) => BOp::FloatCmp { a: r.below(6) as u8, b: r.below(6) as u8, same: r.chance(1, 2), slice: r.chance(1, 2) },
        _ => BOp::HasherBox(r.next() as u32),
    }
}

fn rop(r: &mut Rng) -> ROp {
    match r.below(6) {
        0..=2 => ROp::Alloc {
            size: match r.below(4) {
                0 => r.below(16) as usize,
                1 => r.below(200) as usize,
                2 => r.below(2000) as usize,
                _ => r.below(9000) as usize,
            },
            align: 1 << r.below(7),
            seed: r.next() as u32,
        },
        3 | 4 => ROp::FillTo { d: r.range(-17, 60) as i32 },
        _ => ROp::Rewrite { i: r.usize_below(16), seed: r.next() as u32 },
    }
}

pub fn aop(r: &mut Rng) -> AOp {
    let x = r.below(50) as u32;
    match r.below(24) {
        0..=5 => AOp::Push(x),
        6 | 7 => AOp::Pop,
        8 | 9 => AOp::Insert(pos(r), x),
        10 | 11 => AOp::Remove(pos(r)),
        12 | 13 => AOp::Extend(small(r), x),
        14 => AOp::Truncate(pos(r)),
        15 => AOp::Reserve(small(r)),
        16 => AOp::ReserveExact(small(r)),
        17 => AOp::ShrinkToFit,
        18 => AOp::ShrinkTo(small(r)),
        19 => {
            if r.chance(1, 3) {
                AOp::Clear
            } else {
                AOp::Dedup
            }
        }
        20 => AOp::Resize(pos(r), x),
        21 => AOp::SplitOff(pos(r)),
        22 => AOp::IntoBoxedSliceAndBack,
        _ => {
            if r.chance(1, 2) {
                AOp::CloneCmp
            } else {
                AOp::Recreate(small(r))
            }
        }
    }
}

#[derive(Clone, Copy, PartialEq, Eq)]
pub enum Focus {
    AVec,
    Vec,
    Str,
    Boxes,
    Drops,
}

pub fn gen_w2(seed: u64, focus: Focus) -> W2Script {
    let root = Rng::new(seed);
    let mut cfg = root.sub(1);
    let mut sched = root.sub(2);
    let n_clients = 1 + cfg.usize_below(4);
    let mut clients = Vec::new();
    for i in 0..n_clients {
        let k = if i == 0 {
            match focus {
                Focus::AVec => ClientKind::AVec,
                Focus::Vec => ClientKind::Vec(*cfg.pick(&[VT::U8, VT::U32, VT::Tr, VT::Tr, VT::Big, VT::Zt, VT::Wide])),
                Focus::Str => ClientKind::Str,
                Focus::Boxes => ClientKind::Boxes,
                Focus::Drops => ClientKind::Vec(*cfg.pick(&[VT::Tr, VT::Tr, VT::Big, VT::Zt, VT::Wide])),
            }
        } else {
            match cfg.below(10) {
                0..=3 => ClientKind::Vec(*cfg.pick(&[VT::U8, VT::U32, VT::Tr, VT::Big, VT::Zt, VT::Wide])),
                4 | 5 => ClientKind::Str,
                6 | 7 => ClientKind::Raw,
                8 => ClientKind::AVec,
                _ => ClientKind::Boxes,
            }
        };
        clients.push(k);
    }
    let mut rngs: Vec<Rng> = (0..n_clients).map(|i| root.sub(100 + i as u64)).collect();
    let mut n_steps = if cfg.chance(3, 4) { cfg.geo(2, 40, 14) } else { cfg.geo(20, 120, 50) };
    let mega = focus == Focus::Str && cfg.chance(1, 300);
    if mega {
        n_steps = n_steps.min(16);
    }
    MEGA.with(|m| m.set(mega));
    // scheduler: the focus client gets half of the steps
    let mut steps = Vec::with_capacity(n_steps);
    for _ in 0..n_steps {
        let ci = if n_clients == 1 || sched.chance(1, 2) { 0 } else { 1 + sched.usize_below(n_clients - 1) };
        let r = &mut rngs[ci];
        let op = match &clients[ci] {
            ClientKind::Vec(vt) => COp::V(vop(r, *vt)),
            ClientKind::Str => COp::S(sop(r)),
            ClientKind::Raw => COp::R(rop(r)),
            ClientKind::Boxes => COp::B(bop(r)),
            ClientKind::AVec => COp::A(aop(r)),
        };
        steps.push((ci as u8, op));
    }
    MEGA.with(|m| m.set(false));
    W2Script {
        clients,
        capacity: *cfg.pick(&[0usize, 0, 1, 100, 448, 3000]),
        steps,
        placement: Placement::Seeded(cfg.next()),
        reset_at_end: cfg.chance(1, 2),
    }
}
