//! W2 op vocabulary: collections clients (Vec, String, Box, raw blocks) sharing one arena,
//! interleaved by the step scheduler. Every op is mirrored on a std collection.

use crate::simalloc::Placement;
use serde::{Deserialize, Serialize};

/// position resolved against the current length at execution time
#[derive(Clone, Copy, Debug, PartialEq, Eq, Serialize, Deserialize)]
pub enum Pos {
    /// absolute
    A(usize),
    /// len + delta (clamped at 0)
    L(i32),
    /// usize::MAX - delta
    M(u8),
    /// capacity() + delta of the arena-backed container at the moment the op starts (an index or
    /// target length derived from an earlier result: "resize to exactly what was reserved")
    C(i8),
    /// capacity() - len() + delta (an amount: "reserve exactly the slack, or one more")
    S(i8),
}

thread_local! {
    /// spare capacity (capacity - len) of the arena-backed container the current op addresses;
    /// 0 for zero-sized elements. Set by the client before it resolves positions.
    static CUR_SPARE: std::cell::Cell<usize> = const { std::cell::Cell::new(0) };
}
pub fn set_spare(n: usize) {
    CUR_SPARE.with(|c| c.set(n));
}
impl Pos {
    pub fn at(&self, len: usize) -> usize {
        match *self {
            Pos::A(n) => n,
            Pos::L(d) => (len as i64 + d as i64).max(0) as usize,
            Pos::M(d) => usize::MAX - d as usize,
            Pos::C(d) => (len as i64 + CUR_SPARE.with(|c| c.get()).min(1 << 20) as i64 + d as i64).max(0) as usize,
            Pos::S(d) => (CUR_SPARE.with(|c| c.get()).min(1 << 20) as i64 + d as i64).max(0) as usize,
        }
    }
}

#[derive(Clone, Copy, Debug, PartialEq, Eq, Serialize, Deserialize)]
pub enum Bd {
    U,
    I(Pos),
    E(Pos),
}
impl Bd {
    pub fn at(&self, len: usize) -> std::ops::Bound<usize> {
        match self {
            Bd::U => std::ops::Bound::Unbounded,
            Bd::I(p) => std::ops::Bound::Included(p.at(len)),
            Bd::E(p) => std::ops::Bound::Excluded(p.at(len)),
        }
    }
}

#[derive(Clone, Copy, Debug, PartialEq, Eq, Serialize, Deserialize)]
pub struct Rng2 {
    pub lo: Bd,
    pub hi: Bd,
}

/// how an iterator returned by an op is consumed
#[derive(Clone, Copy, Debug, PartialEq, Eq, Serialize, Deserialize)]
pub enum Consume {
    All,
    AllBack,
    Mixed(u8, u8),
    DropNow,
    Forget,
    /// take k items from the front, then mem::forget the iterator (leak amplification path)
    TakeForget(u8),
}

#[derive(Clone, Copy, Debug, PartialEq, Eq, Serialize, Deserialize)]
pub enum VT {
    U8,
    U32,
    Tr,
    Big,
    Zt,
    /// 64 bytes, aligned to 64
    Wide,
}

/// pure predicates / keys over an element's tag
#[derive(Clone, Copy, Debug, PartialEq, Eq, Serialize, Deserialize)]
pub enum Pred {
    /// tag % m == r
    Mod(u32, u32),
    /// tag < x
    Lt(u32),
    True,
    False,
}
impl Pred {
    pub fn eval(&self, tag: u32) -> bool {
        match *self {
            Pred::Mod(m, r) => tag % m.max(1) == r,
            Pred::Lt(x) => tag < x,
            Pred::True => true,
            Pred::False => false,
        }
    }
}

#[derive(Clone, Copy, Debug, PartialEq, Eq, Serialize, Deserialize)]
pub enum Same {
    /// a.tag == b.tag
    Eq,
    /// a.tag / d == b.tag / d
    Bucket(u32),
    /// asymmetric: a.tag == b.tag + 1 (a is the later element)
    Succ,
}
impl Same {
    pub fn eval(&self, a: u32, b: u32) -> bool {
        match *self {
            Same::Eq => a == b,
            Same::Bucket(d) => a / d.max(1) == b / d.max(1),
            Same::Succ => a == b.wrapping_add(1),
        }
    }
}

#[derive(Clone, Copy, Debug, PartialEq, Eq, Serialize, Deserialize)]
pub enum HintKind {
    Exact,
    /// lower bound 0, no upper bound
    Unknown,
    /// lower bound smaller than the truth
    Low,
}

#[derive(Clone, Debug, PartialEq, Serialize, Deserialize)]
pub enum VOp {
    Push(u32),
    Pop,
    Insert(Pos, u32),
    Remove(Pos),
    SwapRemove(Pos),
    Truncate(Pos),
    Clear,
    Resize(Pos, u32),
    Extend { n: usize, tag0: u32, hint: HintKind },
    ExtendFromSlice { n: usize, tag0: u32 },
    ExtendCopy { n: usize, tag0: u32 },
    ExtendSlicesCopy { ns: Vec<usize>, tag0: u32 },
    ExtendRef { n: usize, tag0: u32 },
    Append { n: usize, tag0: u32 },
    SplitOff(Pos),
    Drain(Rng2, Consume),
    Splice(Rng2, usize, u32, HintKind, Consume),
    Retain(Pred),
    DrainFilter(Pred, Consume),
    Dedup,
    DedupBy(Same),
    DedupByKey(u32),
    Reserve(Pos),
    ReserveExact(Pos),
    TryReserve(Pos),
    TryReserveExact(Pos),
    /// try_reserve(_exact) while the arena's allocation limit leaves `headroom` bytes: the call may
    /// fail; a failed call must leave length, contents and capacity exactly as they were
    TryReserveLimited { n: usize, exact: bool, headroom: usize },
    ShrinkToFit,
    CloneCmp,
    IntoIter(Consume),
    IntoBumpSlice { mutable: bool },
    IntoBoxedSlice,
    DropHeldBox,
    Recreate(VCtor),
    Write { n: usize, seed: u32, all: bool },
    SetIndex(Pos, u32),
    GetIndex(Pos),
    Swap(Pos, Pos),
    Reverse,
    CmpHash,
    DropVec,
    /// turn the vector into an iterator that stays alive across later steps (other clients
    /// keep allocating in the arena meanwhile)
    IterHold,
    /// start a drain that stays alive across later steps of other clients
    DrainHold(Rng2),
    /// pull one element from the held iterator / drain
    IterNext { back: bool },
    /// drop the held iterator / drain
    IterRelease,
    /// push by hand: reserve(1), write through as_mut_ptr, set_len(len + 1)
    RawPush(u32),
    /// unsafe set_len to a smaller length (the tail is leaked, in both worlds)
    SetLenShrink(Pos),
    /// take the vector apart (as_mut_ptr, len, capacity, bump) and rebuild it with from_raw_parts_in
    RawPartsRoundTrip,
}

#[derive(Clone, Copy, Debug, PartialEq, Eq, Serialize, Deserialize)]
pub enum VCtor {
    New,
    WithCap(usize),
    FromIter { n: usize, tag0: u32, hint: HintKind },
    CollectIn { n: usize, tag0: u32 },
    MacroRepeat { n: usize, tag: u32 },
    MacroList { n: usize, tag0: u32 },
    /// iterator of Option<T> / Result<T, E> collected into Option<Vec> / Result<Vec, E>; the
    /// `stop_at`-th item (if any) is None / Err
    CollectInOption { n: usize, tag0: u32, stop_at: Option<usize> },
    CollectInResult { n: usize, tag0: u32, stop_at: Option<usize> },
}

#[derive(Clone, Debug, PartialEq, Serialize, Deserialize)]
pub enum SOp {
    Push(char),
    PushStr(#[serde(with = "compact_text")] String),
    Pop,
    Insert(Pos, char),
    InsertStr(Pos, #[serde(with = "compact_text")] String),
    Remove(Pos),
    Truncate(Pos),
    Clear,
    Retain(Pred),
    Drain(Rng2, Consume),
    ReplaceRange(Rng2, #[serde(with = "compact_text")] String),
    SplitOff(Pos),
    ExtendChars(#[serde(with = "compact_text")] String),
    ExtendStrs(#[serde(with = "compact_texts")] Vec<String>),
    CloneCmp,
    Format(u32, #[serde(with = "compact_text")] String),
    IntoBumpStr,
    Recreate(SCtor),
    Reserve(Pos),
    ReserveExact(Pos),
    ShrinkToFit,
    Index(Rng2),
    AddStr(#[serde(with = "compact_text")] String),
    IntoBytesRoundTrip,
    CmpHash,
    /// 0: as_mut_ptr/len/capacity + from_raw_parts_in; 1: into_bytes + from_utf8_unchecked;
    /// 2: unsafe as_mut_vec().push(ascii) and as_mut_str().make_ascii_uppercase()
    UnsafeRoundTrip(u8),
}

#[derive(Clone, Debug, PartialEq, Serialize, Deserialize)]
pub enum SCtor {
    New,
    WithCap(usize),
    FromStr(#[serde(with = "compact_text")] String),
    FromIter(#[serde(with = "compact_text")] String),
    FromUtf8(Vec<u8>),
    FromUtf8Lossy(Vec<u8>),
    FromUtf16(Vec<u16>),
    CollectIn(#[serde(with = "compact_text")] String),
}

#[derive(Clone, Debug, PartialEq, Serialize, Deserialize)]
pub enum ROp {
    /// raw block with canary (alloc_layout)
    Alloc { size: usize, align: usize, seed: u32 },
    /// allocate chunk_capacity() - d bytes: positions the arena for the next growth
    FillTo { d: i32 },
    Rewrite { i: usize, seed: u32 },
}

#[derive(Clone, Debug, PartialEq, Serialize, Deserialize)]
pub enum BOp {
    New(BVal),
    /// drop the i-th held box
    Drop(usize),
    Deref(usize),
    Mutate(usize, u32),
    IntoInner(usize),
    RawRoundTrip(usize),
    Leak(usize),
    Pin(BVal),
    Downcast { i: usize, matching: bool, send: bool },
    ArrayToSlice(usize),
    SliceToArray { i: usize, matching: bool },
    VecToBox {
        n: usize,
        tag0: u32,
        /// spare capacity of the vector before the conversion (0 = whatever from_iter_in leaves)
        #[serde(default)]
        spare: usize,
    },
    FromIter { n: usize, tag0: u32, collect: bool },
    IterBox { n: usize, front: u8, back: u8 },
    Fmt(usize),
    CmpHash(usize, usize),
    Poll(u32),
    Closure(u32),
    HasherBox(u32),
    /// a box of a value whose alignment (2^log2: 32, 64, 256 or 4096) exceeds every chunk granule;
    /// it must be aligned, inside arena memory and keep its bytes (the value is leaked and
    /// re-verified after every later step)
    OverAligned { log2: u8, seed: u32 },
    /// boxes of f64 (and boxed slices of f64) compared with every operator, against another box
    /// or against themselves: a value that is not equal to itself (NaN) must not become equal
    /// because both operands are the same box. a, b index [NaN, 0.0, -0.0, 1.5, inf, -NaN]
    FloatCmp { a: u8, b: u8, same: bool, slice: bool },
}

#[derive(Clone, Debug, PartialEq, Serialize, Deserialize)]
pub enum BVal {
    U64(u64),
    Unit,
    Tr(u32),
    Big(u32),
    Zt,
    Arr4(u32),
    Str(#[serde(with = "compact_text")] String),
    SliceTr { n: usize, tag0: u32 },
    AnyTr(u32),
    AnyU32(u32),
    /// `Box::<[T]>::default()` / `Box::<str>::default()`
    DefaultSlice,
    DefaultStr,
}

#[derive(Clone, Debug, PartialEq, Serialize, Deserialize)]
pub enum ClientKind {
    Vec(VT),
    Str,
    Raw,
    Boxes,
    /// `allocator_api2::vec::Vec<u32, &Bump>`: a standard collection parameterised by the arena (C12)
    AVec,
}

/// ops of the allocator_api2 Vec client
#[derive(Clone, Debug, PartialEq, Serialize, Deserialize)]
pub enum AOp {
    Push(u32),
    Pop,
    Insert(Pos, u32),
    Remove(Pos),
    Extend(usize, u32),
    Truncate(Pos),
    Reserve(usize),
    ReserveExact(usize),
    ShrinkToFit,
    ShrinkTo(usize),
    Clear,
    Resize(Pos, u32),
    Dedup,
    SplitOff(Pos),
    IntoBoxedSliceAndBack,
    CloneCmp,
    Recreate(usize),
}

#[derive(Clone, Debug, PartialEq, Serialize, Deserialize)]
pub enum COp {
    A(AOp),
    V(VOp),
    S(SOp),
    R(ROp),
    B(BOp),
}

#[derive(Clone, Debug, PartialEq, Serialize, Deserialize)]
pub struct W2Script {
    pub clients: Vec<ClientKind>,
    /// arena constructor capacity (0 = Bump::new())
    pub capacity: usize,
    /// the schedule: (client index, op) in execution order
    pub steps: Vec<(u8, COp)>,
    pub placement: Placement,
    /// what happens at the end: true = reset the arena before dropping it
    pub reset_at_end: bool,
}

/// Replay files keep megabyte texts readable (and shrinkable): a long text that is an exact
/// repetition of a short unit is written as `{"unit": "...", "times": n}`; anything else stays a
/// plain JSON string. Both forms are accepted when reading.
pub mod compact_text {
    use serde::{Deserialize, Deserializer, Serialize, Serializer};

    #[derive(Serialize, Deserialize)]
    #[serde(untagged)]
    pub enum Repr {
        Plain(String),
        Rep { unit: String, times: usize },
    }

    pub fn to_repr(s: &str) -> Repr {
        if s.len() > 2048 {
            for ulen in 1..=32usize {
                if s.len() % ulen == 0 && s.is_char_boundary(ulen) {
                    let unit = &s.as_bytes()[..ulen];
                    if s.as_bytes().chunks(ulen).all(|c| c == unit) {
                        return Repr::Rep { unit: s[..ulen].to_string(), times: s.len() / ulen };
                    }
                }
            }
        }
        Repr::Plain(s.to_string())
    }

    pub fn from_repr(r: Repr) -> String {
        match r {
            Repr::Plain(s) => s,
            // a replay file is trusted input, but keep an absurd count from eating the machine
            Repr::Rep { unit, times } => unit.repeat(times.min((64 << 20) / unit.len().max(1))),
        }
    }

    pub fn serialize<S: Serializer>(s: &String, ser: S) -> Result<S::Ok, S::Error> {
        to_repr(s).serialize(ser)
    }

    pub fn deserialize<'de, D: Deserializer<'de>>(d: D) -> Result<String, D::Error> {
        Ok(from_repr(Repr::deserialize(d)?))
    }
}

pub mod compact_texts {
    use super::compact_text::{from_repr, to_repr, Repr};
    use serde::{Deserialize, Deserializer, Serialize, Serializer};

    pub fn serialize<S: Serializer>(v: &Vec<String>, ser: S) -> Result<S::Ok, S::Error> {
        v.iter().map(|s| to_repr(s)).collect::<Vec<Repr>>().serialize(ser)
    }

    pub fn deserialize<'de, D: Deserializer<'de>>(d: D) -> Result<Vec<String>, D::Error> {
        Ok(Vec::<Repr>::deserialize(d)?.into_iter().map(from_repr).collect())
    }
}
