//! W2: one `bumpalo::collections::String` client mirrored by `std::string::String` (C14).

use crate::simalloc::harness_scope;
use crate::track::{tick, TICK_CLOSURE, TICK_ITER};
use crate::w2_ops::*;
use crate::w2_vec::{b_call, s_call, OpOutcome, Ret, Side};
use bumpalo::collections::{CollectIn, String as BString, Vec as BVec};
use bumpalo::Bump;
use std::fmt::Write as _;
use std::hash::{Hash, Hasher};
use std::ops::Bound;

pub struct StrPair {
    pub b: Option<BString<'static>>,
    pub s: Option<String>,
    /// strs returned by into_bump_str: valid and unchanged for the arena's life
    pub frozen: Vec<(&'static str, String)>,
}

fn consume_chars<I: DoubleEndedIterator<Item = char>>(mut it: I, how: Consume) -> Ret {
    let mut out = String::new();
    let h0 = it.size_hint();
    match how {
        Consume::All => {
            while let Some(c) = it.next() {
                out.push(c);
            }
        }
        Consume::AllBack => {
            while let Some(c) = it.next_back() {
                out.push(c);
            }
        }
        Consume::Mixed(f, b) => {
            for _ in 0..f {
                match it.next() {
                    Some(c) => out.push(c),
                    None => break,
                }
            }
            for _ in 0..b {
                match it.next_back() {
                    Some(c) => out.push(c),
                    None => break,
                }
            }
        }
        Consume::DropNow => {}
        Consume::Forget => {
            std::mem::forget(it);
            return Ret::Text(out);
        }
        Consume::TakeForget(k) => {
            for _ in 0..k {
                match it.next() {
                    Some(c) => out.push(c),
                    None => break,
                }
            }
            std::mem::forget(it);
            return Ret::Text(out);
        }
    }
    let h1 = it.size_hint();
    let fused = if matches!(how, Consume::All | Consume::AllBack) { it.next().is_none() } else { true };
    drop(it);
    Ret::Text(format!("{}|{:?}|{:?}|{}", out, h0, h1, fused))
}

/// char iterator that counts as a callback (panic injection point)
pub struct CharIter<'a> {
    pub it: std::str::Chars<'a>,
    pub tick: bool,
}
impl<'a> Iterator for CharIter<'a> {
    type Item = char;
    fn next(&mut self) -> Option<char> {
        if self.tick {
            let _g = harness_scope();
            tick(TICK_ITER);
        }
        self.it.next()
    }
}

impl StrPair {
    pub fn new() -> Self {
        StrPair { b: None, s: None, frozen: Vec::new() }
    }
    fn ensure(&mut self, bump: &'static Bump) {
        if self.b.is_none() {
            self.b = Some(b_call(|| BString::new_in(bump)).expect("new_in"));
            self.s = Some(String::new());
        }
    }
    pub fn drop_all(&mut self) {
        self.frozen.clear();
        let b = self.b.take();
        let _ = b_call(move || drop(b));
        self.s = None;
    }

    /// equal text, and the bumpalo side's bytes are valid UTF-8 (checked on the raw bytes)
    pub fn compare(&self) -> Result<(), (&'static str, String)> {
        for (i, (got, want)) in self.frozen.iter().enumerate() {
            if std::str::from_utf8(got.as_bytes()).is_err() {
                return Err(("invalid-utf8", format!("str #{} returned by into_bump_str no longer holds UTF-8", i)));
            }
            if *got != want.as_str() {
                return Err(("text-differs", format!("str #{} returned by into_bump_str changed afterwards", i)));
            }
        }
        match (&self.b, &self.s) {
            (None, None) => Ok(()),
            (Some(b), Some(s)) => {
                let bytes = b.as_bytes();
                match std::str::from_utf8(bytes) {
                    Err(e) => Err(("invalid-utf8", format!("bytes {:?}: {}", &bytes[..bytes.len().min(24)], e))),
                    Ok(t) => {
                        if t != s.as_str() {
                            Err(("text-differs", format!("{:?} vs std {:?}", truncate(t), truncate(s))))
                        } else if b.capacity() < b.len() {
                            Err(("capacity-below-len", String::new()))
                        } else {
                            Ok(())
                        }
                    }
                }
            }
            _ => Err(("presence-differs", String::new())),
        }
    }

    pub fn construct(&mut self, bump: &'static Bump, c: &SCtor) -> OpOutcome {
        let ob = self.b.take();
        let _ = b_call(move || drop(ob));
        self.s = None;
        let (rb, rs): (Result<Result<BString<'static>, String>, ()>, Result<Result<String, String>, ()>) = match c {
            SCtor::New => (b_call(|| Ok(BString::new_in(bump))), s_call(|| Ok(String::new()))),
            SCtor::WithCap(n) => {
                let n = (*n).min(4096);
                (b_call(|| Ok(BString::with_capacity_in(n, bump))), s_call(|| Ok(String::with_capacity(n))))
            }
            SCtor::FromStr(t) => (b_call(|| Ok(BString::from_str_in(t, bump))), s_call(|| Ok(t.clone()))),
            SCtor::FromIter(t) => (
                b_call(|| Ok(BString::from_iter_in(CharIter { it: t.chars(), tick: true }, bump))),
                s_call(|| Ok(t.chars().collect::<String>())),
            ),
            SCtor::CollectIn(t) => (
                b_call(|| Ok(CharIter { it: t.chars(), tick: true }.collect_in::<BString>(bump))),
                s_call(|| Ok(t.chars().collect::<String>())),
            ),
            SCtor::FromUtf8(bytes) => (
                b_call(|| {
                    let mut v = BVec::new_in(bump);
                    v.extend_from_slice_copy(bytes);
                    match BString::from_utf8(v) {
                        Ok(s) => Ok(s),
                        Err(e) => {
                            let ue = e.utf8_error();
                            let d = format!("{}/{:?}/{}", ue.valid_up_to(), ue.error_len(), e.as_bytes() == &bytes[..]);
                            let back = e.into_bytes();
                            Err(format!("{}/{}", d, &back[..] == &bytes[..]))
                        }
                    }
                }),
                s_call(|| match String::from_utf8(bytes.clone()) {
                    Ok(s) => Ok(s),
                    Err(e) => {
                        let ue = e.utf8_error();
                        let d = format!("{}/{:?}/{}", ue.valid_up_to(), ue.error_len(), e.as_bytes() == &bytes[..]);
                        let back = e.into_bytes();
                        Err(format!("{}/{}", d, &back[..] == &bytes[..]))
                    }
                }),
            ),
            SCtor::FromUtf8Lossy(bytes) => (
                b_call(|| Ok(BString::from_utf8_lossy_in(bytes, bump))),
                s_call(|| Ok(String::from_utf8_lossy(bytes).into_owned())),
            ),
            SCtor::FromUtf16(u) => (
                b_call(|| BString::from_utf16_in(u, bump).map_err(|_| "utf16".to_string())),
                s_call(|| String::from_utf16(u).map_err(|_| "utf16".to_string())),
            ),
        };
        let mut b_side: Side = Err(());
        let mut s_side: Side = Err(());
        if let Ok(r) = rb {
            match r {
                Ok(bs) => {
                    self.b = Some(bs);
                    b_side = Ok(Ret::Flag(true));
                }
                Err(d) => b_side = Ok(Ret::Text(d)),
            }
        }
        if let Ok(r) = rs {
            match r {
                Ok(ss) => {
                    self.s = Some(ss);
                    s_side = Ok(Ret::Flag(true));
                }
                Err(d) => s_side = Ok(Ret::Text(d)),
            }
        }
        if self.b.is_none() != self.s.is_none() {
            // leave the comparison to report the difference; reset both afterwards
        }
        if self.b.is_none() && self.s.is_none() {
            self.ensure(bump);
        }
        OpOutcome { b: b_side, s: s_side, extra: None }
    }

    pub fn exec(&mut self, bump: &'static Bump, op: &SOp) -> OpOutcome {
        if let SOp::Recreate(c) = op {
            return self.construct(bump, c);
        }
        self.ensure(bump);
        let len = self.s.as_ref().unwrap().len();
        crate::w2_ops::set_spare(self.b.as_ref().map(|b| b.capacity().saturating_sub(b.len())).unwrap_or(0));
        match op {
            SOp::IntoBumpStr => {
                let b = self.b.take().unwrap();
                let s = self.s.take().unwrap();
                let mut kept: Option<&'static str> = None;
                let rb = b_call(|| {
                    let r: &'static str = b.into_bump_str();
                    kept = Some(r);
                    Ret::Text(r.to_string())
                });
                if let (Some(r), Ok(Ret::Text(t))) = (kept, &rb) {
                    if self.frozen.len() < 8 {
                        self.frozen.push((r, t.clone()));
                    }
                }
                let rs = s_call(move || Ret::Text(s));
                return OpOutcome { b: rb, s: rs, extra: None };
            }
            SOp::IntoBytesRoundTrip => {
                let b = self.b.take().unwrap();
                let s = self.s.take().unwrap();
                let rb = b_call(move || {
                    let v = b.into_bytes();
                    BString::from_utf8(v).ok()
                });
                let rs = s_call(move || String::from_utf8(s.into_bytes()).ok());
                let (mut bo, mut so) = (Err(()), Err(()));
                if let Ok(Some(x)) = rb {
                    self.b = Some(x);
                    bo = Ok(Ret::Unit);
                }
                if let Ok(Some(x)) = rs {
                    self.s = Some(x);
                    so = Ok(Ret::Unit);
                }
                return OpOutcome { b: bo, s: so, extra: None };
            }
            SOp::UnsafeRoundTrip(mode) => {
                let b = self.b.take().unwrap();
                let s = self.s.take().unwrap();
                let mode = *mode;
                let same_bump = std::ptr::eq(b.bump(), bump);
                let rb = b_call(move || match mode {
                    0 => {
                        let mut m = std::mem::ManuallyDrop::new(b);
                        let (l, c, owner) = (m.len(), m.capacity(), m.bump());
                        let p = m.as_mut_str().as_mut_ptr();
                        unsafe { BString::from_raw_parts_in(p, l, c, owner) }
                    }
                    1 => unsafe { BString::from_utf8_unchecked(b.into_bytes()) },
                    _ => {
                        let mut b = b;
                        unsafe { b.as_mut_vec().push(b'q') };
                        b.as_mut_str().make_ascii_uppercase();
                        b
                    }
                });
                let rs = s_call(move || match mode {
                    0 => {
                        let mut m = std::mem::ManuallyDrop::new(s);
                        let (l, c) = (m.len(), m.capacity());
                        let p = m.as_mut_str().as_mut_ptr();
                        unsafe { String::from_raw_parts(p, l, c) }
                    }
                    1 => unsafe { String::from_utf8_unchecked(s.into_bytes()) },
                    _ => {
                        let mut s = s;
                        unsafe { s.as_mut_vec().push(b'q') };
                        s.as_mut_str().make_ascii_uppercase();
                        s
                    }
                });
                let (mut bo, mut so) = (Err(()), Err(()));
                if let Ok(x) = rb {
                    self.b = Some(x);
                    bo = Ok(Ret::Unit);
                }
                if let Ok(x) = rs {
                    self.s = Some(x);
                    so = Ok(Ret::Unit);
                }
                let extra = if same_bump { None } else { Some(("C14", "string-bump-accessor-wrong-arena", String::new())) };
                return OpOutcome { b: bo, s: so, extra };
            }
            SOp::AddStr(t) => {
                let b = self.b.take().unwrap();
                let s = self.s.take().unwrap();
                let rb = b_call(move || {
                    let mut x = b + t.as_str();
                    x += "+";
                    x
                });
                let rs = s_call(move || {
                    let mut x = s + t.as_str();
                    x += "+";
                    x
                });
                let (mut bo, mut so) = (Err(()), Err(()));
                if let Ok(x) = rb {
                    self.b = Some(x);
                    bo = Ok(Ret::Unit);
                }
                if let Ok(x) = rs {
                    self.s = Some(x);
                    so = Ok(Ret::Unit);
                }
                return OpOutcome { b: bo, s: so, extra: None };
            }
            _ => {}
        }
        let b = self.b.as_mut().unwrap();
        let s = self.s.as_mut().unwrap();
        let mut extra = None;
        let (rb, rs): (Side, Side) = match op {
            SOp::Push(c) => (b_call(|| b.push(*c)).map(|_| Ret::Unit), s_call(|| s.push(*c)).map(|_| Ret::Unit)),
            SOp::PushStr(t) => (b_call(|| b.push_str(t)).map(|_| Ret::Unit), s_call(|| s.push_str(t)).map(|_| Ret::Unit)),
            SOp::Pop => (
                b_call(|| b.pop()).map(|c| Ret::Text(format!("{:?}", c))),
                s_call(|| s.pop()).map(|c| Ret::Text(format!("{:?}", c))),
            ),
            SOp::Insert(p, c) => {
                let i = p.at(len);
                (b_call(|| b.insert(i, *c)).map(|_| Ret::Unit), s_call(|| s.insert(i, *c)).map(|_| Ret::Unit))
            }
            SOp::InsertStr(p, t) => {
                let i = p.at(len);
                (b_call(|| b.insert_str(i, t)).map(|_| Ret::Unit), s_call(|| s.insert_str(i, t)).map(|_| Ret::Unit))
            }
            SOp::Remove(p) => {
                let i = p.at(len);
                (
                    b_call(|| b.remove(i)).map(|c| Ret::Text(c.to_string())),
                    s_call(|| s.remove(i)).map(|c| Ret::Text(c.to_string())),
                )
            }
            SOp::Truncate(p) => {
                let i = p.at(len);
                (b_call(|| b.truncate(i)).map(|_| Ret::Unit), s_call(|| s.truncate(i)).map(|_| Ret::Unit))
            }
            SOp::Clear => (b_call(|| b.clear()).map(|_| Ret::Unit), s_call(|| s.clear()).map(|_| Ret::Unit)),
            SOp::Retain(pred) => (
                b_call(|| {
                    b.retain(|c| {
                        let _g = harness_scope();
                        tick(TICK_CLOSURE);
                        pred.eval(c as u32)
                    })
                })
                .map(|_| Ret::Unit),
                s_call(|| s.retain(|c| pred.eval(c as u32))).map(|_| Ret::Unit),
            ),
            SOp::Drain(r, how) => {
                let range = (r.lo.at(len), r.hi.at(len));
                (b_call(|| consume_chars(b.drain(range), *how)), s_call(|| consume_chars(s.drain(range), *how)))
            }
            SOp::ReplaceRange(r, t) => {
                let range = (r.lo.at(len), r.hi.at(len));
                (
                    b_call(|| b.replace_range(range, t)).map(|_| Ret::Unit),
                    s_call(|| s.replace_range(range, t)).map(|_| Ret::Unit),
                )
            }
            SOp::SplitOff(p) => {
                let at = p.at(len);
                (
                    b_call(|| {
                        let t = b.split_off(at);
                        Ret::Text(t.as_str().to_string())
                    }),
                    s_call(|| Ret::Text(s.split_off(at))),
                )
            }
            SOp::ExtendChars(t) => (
                b_call(|| b.extend(CharIter { it: t.chars(), tick: true })).map(|_| Ret::Unit),
                s_call(|| s.extend(t.chars())).map(|_| Ret::Unit),
            ),
            SOp::ExtendStrs(v) => (
                b_call(|| {
                    b.extend(v.iter().map(|x| x.as_str()));
                    let cs: Vec<char> = v.iter().filter_map(|x| x.chars().next()).collect();
                    b.extend(cs.iter());
                    b.extend(v.iter().map(|x| BString::from_str_in(x, bump)));
                    b.extend(v.iter().map(|x| x.clone()));
                    b.extend(v.iter().map(|x| std::borrow::Cow::Borrowed(x.as_str())));
                })
                .map(|_| Ret::Unit),
                s_call(|| {
                    s.extend(v.iter().map(|x| x.as_str()));
                    let cs: Vec<char> = v.iter().filter_map(|x| x.chars().next()).collect();
                    s.extend(cs.iter());
                    s.extend(v.iter().map(|x| x.clone()));
                    s.extend(v.iter().map(|x| x.clone()));
                    s.extend(v.iter().map(|x| std::borrow::Cow::Borrowed(x.as_str())));
                })
                .map(|_| Ret::Unit),
            ),
            SOp::CloneCmp => {
                // clone plus the comparison / borrowing / IndexMut glue, observed as one text per world
                macro_rules! views {
                    ($v:expr) => {{
                        let v = $v;
                        let mut c = v.clone();
                        let std_copy: String = v.as_str().to_string();
                        let cow: std::borrow::Cow<str> = std::borrow::Cow::Borrowed(v.as_str());
                        let mut flags = vec![
                            c == *v,
                            *v == *v.as_str(),
                            *v.as_str() == *v,
                            *v == v.as_str(),
                            v.as_str() == *v,
                            cow == *v,
                            *v == cow,
                            std_copy == *v,
                            *v == std_copy,
                            AsRef::<[u8]>::as_ref(v) == v.as_bytes(),
                            AsRef::<str>::as_ref(v) == v.as_str(),
                            std::borrow::Borrow::<str>::borrow(v) == v.as_str(),
                        ];
                        std::borrow::BorrowMut::<str>::borrow_mut(&mut c).make_ascii_uppercase();
                        flags.push(c == *v);
                        (&mut c[..]).make_ascii_lowercase();
                        flags.push(c == *v);
                        c.push('!');
                        flags.push(c == *v);
                        flags.push(c != *v);
                        flags.push(*v == "abc!" || c == "abc!");
                        let ends = c.len();
                        (&mut c[..ends]).make_ascii_uppercase();
                        (&mut c[0..]).make_ascii_lowercase();
                        (&mut c[0..ends]).make_ascii_uppercase();
                        (&mut c[..=ends - 1]).make_ascii_lowercase();
                        (&mut c[0..=ends - 1]).make_ascii_uppercase();
                        let json = {
                            let _g = harness_scope();
                            serde_json::to_string(v).unwrap_or_else(|e| format!("error {}", e))
                        };
                        Ret::Text(format!("{:?} {} {:?} {}", flags, c.as_str(), v.as_str(), json))
                    }};
                }
                (b_call(|| views!(&*b)), s_call(|| views!(&*s)))
            }
            SOp::Format(n, t) => (
                b_call(|| {
                    let r = write!(b, "{}-{:?}-{:>5}", n, t, t).is_ok();
                    let f = bumpalo::format!(in bump, "{}|{}", n, t);
                    (r, f.as_str().to_string(), format!("{}", b), format!("{:?}", b))
                })
                .map(|x| Ret::Text(format!("{:?}", x))),
                s_call(|| {
                    let r = write!(s, "{}-{:?}-{:>5}", n, t, t).is_ok();
                    let f = format!("{}|{}", n, t);
                    (r, f, format!("{}", s), format!("{:?}", s))
                })
                .map(|x| Ret::Text(format!("{:?}", x))),
            ),
            SOp::Reserve(p) => {
                let n = p.at(len).min(3000);
                let r = (b_call(|| b.reserve(n)).map(|_| Ret::Unit), s_call(|| s.reserve(n)).map(|_| Ret::Unit));
                if r.0.is_ok() && b.capacity() < len + n {
                    extra = Some(("C14", "reserve-not-honoured", format!("{} + {} > {}", len, n, b.capacity())));
                }
                r
            }
            SOp::ReserveExact(p) => {
                let n = p.at(len).min(3000);
                let r = (b_call(|| b.reserve_exact(n)).map(|_| Ret::Unit), s_call(|| s.reserve_exact(n)).map(|_| Ret::Unit));
                if r.0.is_ok() && b.capacity() < len + n {
                    extra = Some(("C14", "reserve-not-honoured", format!("{} + {} > {}", len, n, b.capacity())));
                }
                r
            }
            SOp::ShrinkToFit => (b_call(|| b.shrink_to_fit()).map(|_| Ret::Unit), s_call(|| s.shrink_to_fit()).map(|_| Ret::Unit)),
            SOp::Index(r) => {
                let (lo, hi) = (r.lo.at(len), r.hi.at(len));
                match (lo, hi) {
                    (Bound::Included(a), Bound::Excluded(z)) => (
                        b_call(|| Ret::Text(b[a..z].to_string())),
                        s_call(|| Ret::Text(s[a..z].to_string())),
                    ),
                    (Bound::Included(a), Bound::Included(z)) => (
                        b_call(|| Ret::Text(b[a..=z].to_string())),
                        s_call(|| Ret::Text(s[a..=z].to_string())),
                    ),
                    (Bound::Included(a), Bound::Unbounded) => (b_call(|| Ret::Text(b[a..].to_string())), s_call(|| Ret::Text(s[a..].to_string()))),
                    (Bound::Unbounded, Bound::Excluded(z)) => (b_call(|| Ret::Text(b[..z].to_string())), s_call(|| Ret::Text(s[..z].to_string()))),
                    (Bound::Unbounded, Bound::Included(z)) => (b_call(|| Ret::Text(b[..=z].to_string())), s_call(|| Ret::Text(s[..=z].to_string()))),
                    (Bound::Unbounded, Bound::Unbounded) => (b_call(|| Ret::Text(b[..].to_string())), s_call(|| Ret::Text(s[..].to_string()))),
                    _ => (Ok(Ret::Unit), Ok(Ret::Unit)),
                }
            }
            SOp::CmpHash => (
                b_call(|| {
                    let mut h = std::collections::hash_map::DefaultHasher::new();
                    b.hash(&mut h);
                    (h.finish(), b.len(), b.is_empty(), *b == "abc", b.as_str() == &**b)
                })
                .map(|x| Ret::Text(format!("{:?}", x))),
                s_call(|| {
                    let mut h = std::collections::hash_map::DefaultHasher::new();
                    s.hash(&mut h);
                    (h.finish(), s.len(), s.is_empty(), *s == "abc", s.as_str() == &**s)
                })
                .map(|x| Ret::Text(format!("{:?}", x))),
            ),
            SOp::IntoBumpStr | SOp::IntoBytesRoundTrip | SOp::UnsafeRoundTrip(_) | SOp::AddStr(_) | SOp::Recreate(_) => unreachable!(),
        };
        OpOutcome { b: rb, s: rs, extra }
    }
}

fn truncate(s: &str) -> String {
    s.chars().take(24).collect()
}
