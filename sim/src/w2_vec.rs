//! W2: one `bumpalo::collections::Vec` client mirrored by `std::vec::Vec` (C13, C15).

use crate::simalloc::{self, harness_scope};
use crate::track::{self, tick, Elem, TICK_CLOSURE, TICK_ITER};
use crate::w2_ops::*;
use bumpalo::collections::{CollectIn, Vec as BVec};
use bumpalo::Bump;
use std::hash::{Hash, Hasher};
use std::panic::{catch_unwind, AssertUnwindSafe};

/// observable result of one call, compared between the two worlds
#[derive(Clone, Debug, PartialEq, Eq)]
pub enum Ret {
    Unit,
    Elems(Vec<(u32, u32)>),
    Num(u64),
    Flag(bool),
    Text(String),
}

/// outcome of one side: returned or panicked
pub type Side = Result<Ret, ()>;

pub fn b_call<R>(f: impl FnOnce() -> R) -> Result<R, ()> {
    simalloc::arena_call(0, f).map_err(|p| {
        let _g = harness_scope();
        drop(p);
    })
}

/// run the std mirror; its panics are expected behaviour, not harness failures
pub fn s_call<R>(f: impl FnOnce() -> R) -> Result<R, ()> {
    simalloc::quiet_call(|| catch_unwind(AssertUnwindSafe(f))).map_err(|p| drop(p))
}

/// iterator over fresh elements with a chosen size_hint honesty
pub struct TagIter<'a, E: Elem> {
    pub ids: &'a [u32],
    pub i: usize,
    pub tag0: u32,
    pub hint: HintKind,
    pub _p: std::marker::PhantomData<E>,
}
impl<'a, E: Elem> TagIter<'a, E> {
    pub fn new(ids: &'a [u32], tag0: u32, hint: HintKind) -> Self {
        TagIter {
            ids,
            i: 0,
            tag0,
            hint,
            _p: std::marker::PhantomData,
        }
    }
}
impl<'a, E: Elem> Iterator for TagIter<'a, E> {
    type Item = E;
    fn next(&mut self) -> Option<E> {
        let _g = harness_scope();
        if E::WORLD == 0 {
            tick(TICK_ITER);
        }
        if self.i >= self.ids.len() {
            return None;
        }
        let e = E::mk(self.ids[self.i], self.tag0.wrapping_add(self.i as u32) % 11);
        self.i += 1;
        Some(e)
    }
    fn size_hint(&self) -> (usize, Option<usize>) {
        let r = self.ids.len() - self.i;
        match self.hint {
            HintKind::Exact => (r, Some(r)),
            HintKind::Unknown => (0, None),
            HintKind::Low => (r / 2, None),
        }
    }
}

fn fresh_ids(n: usize) -> Vec<u32> {
    (0..n).map(|_| track::fresh_id()).collect()
}

fn key<E: Elem>(e: &E) -> (u32, u32) {
    (e.eid(), e.etag())
}

fn take_elem<E: Elem>(e: E) -> (u32, u32) {
    let k = key(&e);
    let _g = harness_scope();
    drop(e);
    k
}

fn consume_iter<E: Elem, I: DoubleEndedIterator<Item = E>>(mut it: I, how: Consume) -> Ret {
    let mut out = Vec::new();
    {
        let (lo, hi) = it.size_hint();
        out.push((100, lo as u32));
        out.push((101, hi.map(|h| h as u32).unwrap_or(u32::MAX)));
    }
    match how {
        Consume::All => {
            while let Some(e) = it.next() {
                out.push(take_elem(e));
            }
        }
        Consume::AllBack => {
            while let Some(e) = it.next_back() {
                out.push(take_elem(e));
            }
        }
        Consume::Mixed(f, b) => {
            for _ in 0..f {
                match it.next() {
                    Some(e) => out.push(take_elem(e)),
                    None => break,
                }
            }
            for _ in 0..b {
                match it.next_back() {
                    Some(e) => out.push(take_elem(e)),
                    None => break,
                }
            }
        }
        Consume::DropNow => {}
        Consume::Forget => {
            std::mem::forget(it);
            return Ret::Elems(out);
        }
        Consume::TakeForget(k) => {
            for _ in 0..k {
                match it.next() {
                    Some(e) => out.push(take_elem(e)),
                    None => break,
                }
            }
            std::mem::forget(it);
            return Ret::Elems(out);
        }
    }
    {
        // size hint of what is left, and (after a full traversal) the iterator stays exhausted
        let (lo, hi) = it.size_hint();
        out.push((102, lo as u32));
        out.push((103, hi.map(|h| h as u32).unwrap_or(u32::MAX)));
        if matches!(how, Consume::All | Consume::AllBack) {
            out.push((104, it.next().is_none() as u32));
        }
    }
    drop(it);
    Ret::Elems(out)
}

pub struct VecPair<A: Elem, B: Elem> {
    pub b: Option<BVec<'static, A>>,
    pub s: Option<Vec<B>>,
    /// slices returned by into_bump_slice(_mut): they stay valid (and unchanged) for the arena's life
    pub frozen: Vec<(&'static [A], Vec<(u32, u32)>)>,
    pub held_it: Option<(bumpalo::collections::vec::IntoIter<'static, A>, std::vec::IntoIter<B>)>,
    pub held_dr: Option<(bumpalo::collections::vec::Drain<'static, 'static, A>, std::vec::Drain<'static, B>)>,
    pub boxes: Vec<(bumpalo::boxed::Box<'static, [A]>, Box<[B]>)>,
    /// buffer address and capacity promises (for C18d)
    pub promised: Option<(usize, usize)>,
}

pub struct OpOutcome {
    pub b: Side,
    pub s: Side,
    /// extra violation found by op-specific checks: (prop, oracle, detail)
    pub extra: Option<(&'static str, &'static str, String)>,
}

impl<A: Elem, B: Elem> VecPair<A, B> {
    pub fn new() -> Self {
        VecPair {
            b: None,
            s: None,
            boxes: Vec::new(),
            promised: None,
            frozen: Vec::new(),
            held_it: None,
            held_dr: None,
        }
    }

    pub fn release_held(&mut self) {
        if let Some((bi, si)) = self.held_it.take() {
            let _ = b_call(move || drop(bi));
            drop(si);
        }
        if let Some((bd, sd)) = self.held_dr.take() {
            let _ = b_call(move || drop(bd));
            drop(sd);
        }
    }

    fn ensure(&mut self, bump: &'static Bump) {
        if self.b.is_none() {
            self.b = Some(b_call(|| BVec::new_in(bump)).expect("new_in does not panic"));
            self.s = Some(Vec::new());
        }
    }

    pub fn len(&self) -> usize {
        self.s.as_ref().map(|v| v.len()).unwrap_or(0)
    }

    /// element-wise comparison of the two worlds' contents
    pub fn compare(&self) -> Result<(), String> {
        if self.held_dr.is_some() {
            // the vector is mutably borrowed by the live drain; it is compared again afterwards
            return Ok(());
        }
        for (i, (sl, want)) in self.frozen.iter().enumerate() {
            let got: Vec<(u32, u32)> = sl.iter().map(key).collect();
            if &got != want || sl.iter().any(|e| !e.intact()) {
                return Err(format!("slice #{} returned by into_bump_slice changed afterwards", i));
            }
        }
        if let Some((bi, si)) = &self.held_it {
            let (x, y) = (bi.as_slice(), si.as_slice());
            if x.len() != y.len() {
                return Err(format!("held iterator has {} elements left vs std {}", x.len(), y.len()));
            }
            if !A::ZST {
                for (i, (a, b)) in x.iter().zip(y.iter()).enumerate() {
                    if key(a) != key(b) || !a.intact() {
                        return Err(format!("held iterator element {}: {:?} vs std {:?}", i, key(a), key(b)));
                    }
                }
            }
        }
        match (&self.b, &self.s) {
            (None, None) => Ok(()),
            (Some(bv), Some(sv)) => {
                if bv.len() != sv.len() {
                    return Err(format!("len {} vs std {}", bv.len(), sv.len()));
                }
                if bv.capacity() < bv.len() {
                    return Err(format!("capacity {} < len {}", bv.capacity(), bv.len()));
                }
                if A::ZST {
                    return Ok(());
                }
                for (i, (x, y)) in bv.iter().zip(sv.iter()).enumerate() {
                    if key(x) != key(y) {
                        return Err(format!("element {}: {:?} vs std {:?}", i, key(x), key(y)));
                    }
                    if !x.intact() {
                        return Err(format!("element {} payload damaged", i));
                    }
                }
                Ok(())
            }
            _ => Err("one world has a vector, the other has none".into()),
        }
    }

    /// every element reachable through the container is a live value (C15/C16)
    pub fn reachable_live(&self) -> Result<(), String> {
        if !A::TRACKED {
            return Ok(());
        }
        let mut ids: Vec<u32> = Vec::new();
        if self.held_dr.is_some() {
            return Ok(());
        }
        if let Some(bv) = &self.b {
            ids.extend(bv.iter().map(|e| e.eid()));
        }
        if let Some((bi, _)) = &self.held_it {
            ids.extend(bi.as_slice().iter().map(|e| e.eid()));
        }
        for (bb, _) in &self.boxes {
            ids.extend(bb.iter().map(|e| e.eid()));
        }
        let bad = track::ledger(|l| ids.iter().copied().find(|&id| l.get(0, id) != 1));
        if let Some(id) = bad {
            return Err(format!("value #{} is reachable through the container but is not live", id));
        }
        ids.sort_unstable();
        if let Some(w) = ids.windows(2).find(|w| w[0] == w[1]) {
            return Err(format!("value #{} is reachable twice", w[0]));
        }
        Ok(())
    }

    pub fn drop_all(&mut self) {
        self.release_held();
        self.frozen.clear();
        let b = self.b.take();
        let s = self.s.take();
        let _ = b_call(move || drop(b));
        drop(s);
        let boxes = std::mem::take(&mut self.boxes);
        for (bb, sb) in boxes {
            let _ = b_call(move || drop(bb));
            drop(sb);
        }
    }

    pub fn construct(&mut self, bump: &'static Bump, c: VCtor) -> OpOutcome {
        // drop whatever was there
        let ob = self.b.take();
        let os = self.s.take();
        let _ = b_call(move || drop(ob));
        drop(os);
        self.promised = None;
        let mut extra = None;
        let (rb, rs): (Result<BVec<'static, A>, ()>, Result<Vec<B>, ()>) = match c {
            VCtor::New => (b_call(|| BVec::new_in(bump)), s_call(Vec::new)),
            VCtor::WithCap(n) => {
                let n = if A::ZST { n } else { n.min(4096) };
                let r = b_call(|| BVec::with_capacity_in(n, bump));
                if let Ok(v) = &r {
                    if v.capacity() < n {
                        extra = Some(("C13", "with-capacity-not-honoured", format!("asked {} got {}", n, v.capacity())));
                    }
                }
                (r, s_call(|| Vec::with_capacity(n)))
            }
            VCtor::FromIter { n, tag0, hint } => {
                let ids = fresh_ids(n);
                (
                    b_call(|| BVec::from_iter_in(TagIter::<A>::new(&ids, tag0, hint), bump)),
                    s_call(|| TagIter::<B>::new(&ids, tag0, hint).collect::<Vec<B>>()),
                )
            }
            VCtor::CollectIn { n, tag0 } => {
                let ids = fresh_ids(n);
                (
                    b_call(|| TagIter::<A>::new(&ids, tag0, HintKind::Exact).collect_in::<BVec<A>>(bump)),
                    s_call(|| TagIter::<B>::new(&ids, tag0, HintKind::Exact).collect::<Vec<B>>()),
                )
            }
            VCtor::CollectInOption { n, tag0, stop_at } | VCtor::CollectInResult { n, tag0, stop_at } => {
                let ids = fresh_ids(n);
                let is_opt = matches!(c, VCtor::CollectInOption { .. });
                let stop = stop_at.filter(|&k| k < n);
                // the source stops being consumed at the first None / Err: create only what is taken
                let rb = b_call(|| {
                    let mut i = 0usize;
                    let it = std::iter::from_fn(|| {
                        let _g = harness_scope();
                        if i >= ids.len() {
                            return None;
                        }
                        let k = i;
                        i += 1;
                        if Some(k) == stop {
                            Some(Err(k as u32))
                        } else {
                            Some(Ok(A::mk(ids[k], tag0.wrapping_add(k as u32) % 11)))
                        }
                    });
                    if is_opt {
                        it.map(|r| r.ok()).collect_in::<Option<BVec<A>>>(bump).ok_or(0u32)
                    } else {
                        it.collect_in::<Result<BVec<A>, u32>>(bump)
                    }
                });
                let rs = s_call(|| {
                    let mut i = 0usize;
                    let it = std::iter::from_fn(|| {
                        if i >= ids.len() {
                            return None;
                        }
                        let k = i;
                        i += 1;
                        if Some(k) == stop {
                            Some(Err(k as u32))
                        } else {
                            Some(Ok(B::mk(ids[k], tag0.wrapping_add(k as u32) % 11)))
                        }
                    });
                    if is_opt {
                        it.map(|r| r.ok()).collect::<Option<Vec<B>>>().ok_or(0u32)
                    } else {
                        it.collect::<Result<Vec<B>, u32>>()
                    }
                });
                // normalise: Ok(vec) keeps the vector, Err(code) leaves an empty one
                let mut err_codes = (None, None);
                let rb2 = rb.map(|r| match r {
                    Ok(v) => v,
                    Err(e) => {
                        err_codes.0 = Some(e);
                        BVec::new_in(bump)
                    }
                });
                let rs2 = rs.map(|r| match r {
                    Ok(v) => v,
                    Err(e) => {
                        err_codes.1 = Some(e);
                        Vec::new()
                    }
                });
                if err_codes.0 != err_codes.1 {
                    extra = Some(("C13", "collect-in-error-differs", format!("{:?} vs std {:?}", err_codes.0, err_codes.1)));
                }
                (rb2, rs2)
            }
            VCtor::MacroRepeat { n, tag } => {
                let n = n.min(300);
                let id = track::fresh_id();
                let (ea, eb) = (A::mk(id, tag), B::mk(id, tag));
                (b_call(|| bumpalo::vec![in bump; ea; n]), s_call(|| vec![eb; n]))
            }
            VCtor::MacroList { n: _, tag0 } => {
                let ids = fresh_ids(3);
                let a = [A::mk(ids[0], tag0), A::mk(ids[1], tag0 + 1), A::mk(ids[2], tag0 + 2)];
                let b = [B::mk(ids[0], tag0), B::mk(ids[1], tag0 + 1), B::mk(ids[2], tag0 + 2)];
                let [a0, a1, a2] = a;
                let [b0, b1, b2] = b;
                (b_call(|| bumpalo::vec![in bump; a0, a1, a2]), s_call(|| vec![b0, b1, b2]))
            }
        };
        let (b, s) = match (rb, rs) {
            (Ok(bv), Ok(sv)) => {
                self.b = Some(bv);
                self.s = Some(sv);
                (Ok(Ret::Unit), Ok(Ret::Unit))
            }
            (rb, rs) => {
                let b = rb.map(|v| {
                    let _ = b_call(move || drop(v));
                    Ret::Unit
                });
                let s = rs.map(|_| Ret::Unit);
                (b, s)
            }
        };
        OpOutcome { b, s, extra }
    }

    pub fn exec(&mut self, bump: &'static Bump, op: &VOp) -> OpOutcome {
        crate::w2_ops::set_spare(match self.b.as_ref() {
            Some(v) if !A::ZST => v.capacity().saturating_sub(v.len()),
            _ => 0,
        });
        match op {
            VOp::IterNext { back } => {
                if let Some((bi, si)) = self.held_it.as_mut() {
                    let b = b_call(|| if *back { bi.next_back() } else { bi.next() }).map(|o| Ret::Elems(o.map(take_elem).into_iter().collect()));
                    let s = s_call(|| if *back { si.next_back() } else { si.next() }).map(|o| Ret::Elems(o.map(take_elem).into_iter().collect()));
                    return OpOutcome { b, s, extra: None };
                }
                if let Some((bd, sd)) = self.held_dr.as_mut() {
                    let b = b_call(|| if *back { bd.next_back() } else { bd.next() }).map(|o| Ret::Elems(o.map(take_elem).into_iter().collect()));
                    let s = s_call(|| if *back { sd.next_back() } else { sd.next() }).map(|o| Ret::Elems(o.map(take_elem).into_iter().collect()));
                    return OpOutcome { b, s, extra: None };
                }
                return OpOutcome { b: Ok(Ret::Unit), s: Ok(Ret::Unit), extra: None };
            }
            VOp::IterRelease => {
                self.release_held();
                return OpOutcome { b: Ok(Ret::Unit), s: Ok(Ret::Unit), extra: None };
            }
            _ => {}
        }
        // any other op on this client ends a live iterator / drain first
        self.release_held();
        if let VOp::IterHold = op {
            self.ensure(bump);
            let bv = self.b.take().unwrap();
            let sv = self.s.take().unwrap();
            self.promised = None;
            let rb = b_call(move || bv.into_iter());
            let rs = s_call(move || sv.into_iter());
            return match (rb, rs) {
                (Ok(bi), Ok(si)) => {
                    self.held_it = Some((bi, si));
                    OpOutcome { b: Ok(Ret::Unit), s: Ok(Ret::Unit), extra: None }
                }
                (rb, rs) => OpOutcome { b: rb.map(|_| Ret::Unit), s: rs.map(|_| Ret::Unit), extra: None },
            };
        }
        if let VOp::DrainHold(r) = op {
            self.ensure(bump);
            let len = self.len();
            let range = (r.lo.at(len), r.hi.at(len));
            self.promised = None;
            // the vectors live in this struct, whose address is stable for the whole run
            let bvp: *mut BVec<'static, A> = self.b.as_mut().unwrap();
            let svp: *mut Vec<B> = self.s.as_mut().unwrap();
            let rb = b_call(|| unsafe { (*bvp).drain(range) });
            let rs = s_call(|| unsafe { (*svp).drain(range) });
            return match (rb, rs) {
                (Ok(bd), Ok(sd)) => {
                    self.held_dr = Some((bd, sd));
                    OpOutcome { b: Ok(Ret::Unit), s: Ok(Ret::Unit), extra: None }
                }
                (rb, rs) => {
                    let b = rb.map(|d| {
                        let _ = b_call(move || drop(d));
                        Ret::Unit
                    });
                    let s = rs.map(|_| Ret::Unit);
                    OpOutcome { b, s, extra: None }
                }
            };
        }
        if let VOp::Recreate(c) = op {
            return self.construct(bump, *c);
        }
        if let VOp::DropHeldBox = op {
            if let Some((bb, sb)) = self.boxes.pop() {
                let b = b_call(move || drop(bb)).map(|_| Ret::Unit);
                drop(sb);
                return OpOutcome { b, s: Ok(Ret::Unit), extra: None };
            }
            return OpOutcome { b: Ok(Ret::Unit), s: Ok(Ret::Unit), extra: None };
        }
        self.ensure(bump);
        let len = self.len();
        let mut extra: Option<(&'static str, &'static str, String)> = None;
        // ops that consume the vector
        match op {
            VOp::IntoIter(how) => {
                let bv = self.b.take().unwrap();
                let sv = self.s.take().unwrap();
                let b = b_call(move || consume_iter(bv.into_iter(), *how));
                let s = s_call(move || consume_iter(sv.into_iter(), *how));
                self.promised = None;
                return OpOutcome { b, s, extra };
            }
            VOp::IntoBumpSlice { mutable } => {
                let bv = self.b.take().unwrap();
                let sv = self.s.take().unwrap();
                let mut kept: Option<&'static [A]> = None;
                let b = b_call(|| {
                    let sl: &'static [A] = if *mutable { bv.into_bump_slice_mut() } else { bv.into_bump_slice() };
                    kept = Some(sl);
                    Ret::Elems(sl.iter().map(key).collect())
                });
                if let (Some(sl), Ok(Ret::Elems(ks))) = (kept, &b) {
                    if !A::ZST && self.frozen.len() < 8 {
                        self.frozen.push((sl, ks.clone()));
                    }
                }
                let s = s_call(move || Ret::Elems(sv.leak().iter().map(key).collect()));
                self.promised = None;
                return OpOutcome { b, s, extra };
            }
            VOp::IntoBoxedSlice => {
                let bv = self.b.take().unwrap();
                let sv = self.s.take().unwrap();
                let rb = b_call(move || bv.into_boxed_slice());
                let rs = s_call(move || sv.into_boxed_slice());
                self.promised = None;
                return match (rb, rs) {
                    (Ok(bb), Ok(sb)) if bb.len() > sb.len().saturating_add(4096) => {
                        // a boxed slice that claims thousands of elements the vector never had
                        // (for zero-sized elements: up to usize::MAX of them) must be neither
                        // walked nor dropped; smaller discrepancies are left to the ordinary
                        // oracles (contents, drop ledger)
                        let (lb, ls) = (bb.len(), sb.len());
                        std::mem::forget(bb);
                        std::mem::forget(sb);
                        extra = Some(("C15+C17", "boxed-slice-length-absurd", format!("the vector had {} elements, the boxed slice claims {}", ls, lb)));
                        OpOutcome { b: Ok(Ret::Num(lb as u64)), s: Ok(Ret::Num(ls as u64)), extra }
                    }
                    (Ok(bb), Ok(sb)) => {
                        let b = Ret::Elems(bb.iter().map(key).collect());
                        let s = Ret::Elems(sb.iter().map(key).collect());
                        self.boxes.push((bb, sb));
                        OpOutcome { b: Ok(b), s: Ok(s), extra }
                    }
                    (rb, rs) => OpOutcome { b: rb.map(|_| Ret::Unit), s: rs.map(|_| Ret::Unit), extra },
                };
            }
            VOp::RawPartsRoundTrip => {
                let bv = self.b.take().unwrap();
                let sv = self.s.take().unwrap();
                let same_bump = std::ptr::eq(bv.bump(), bump);
                let rb = b_call(move || {
                    let mut m = std::mem::ManuallyDrop::new(bv);
                    let (p, l, c) = (m.as_mut_ptr(), m.len(), m.capacity());
                    let owner = m.bump();
                    unsafe { BVec::from_raw_parts_in(p, l, c, owner) }
                });
                let rs = s_call(move || {
                    let mut m = std::mem::ManuallyDrop::new(sv);
                    let (p, l, c) = (m.as_mut_ptr(), m.len(), m.capacity());
                    unsafe { Vec::from_raw_parts(p, l, c) }
                });
                let (mut bo, mut so) = (Err(()), Err(()));
                if let Ok(x) = rb {
                    bo = Ok(Ret::Num(x.len() as u64));
                    self.b = Some(x);
                }
                if let Ok(x) = rs {
                    so = Ok(Ret::Num(x.len() as u64));
                    self.s = Some(x);
                }
                if !same_bump {
                    extra = Some(("C13", "vec-bump-accessor-wrong-arena", String::new()));
                }
                return OpOutcome { b: bo, s: so, extra };
            }
            VOp::DropVec => {
                let bv = self.b.take().unwrap();
                let sv = self.s.take().unwrap();
                let b = b_call(move || drop(bv)).map(|_| Ret::Unit);
                let s = s_call(move || drop(sv)).map(|_| Ret::Unit);
                self.promised = None;
                return OpOutcome { b, s, extra };
            }
            _ => {}
        }
        let bv = self.b.as_mut().unwrap();
        let sv = self.s.as_mut().unwrap();
        let buf0 = bv.as_ptr() as usize;
        let cap0 = bv.capacity();
        let (b, s): (Side, Side) = match op {
            VOp::Push(tag) => {
                let id = track::fresh_id();
                let (ea, eb) = (A::mk(id, *tag), B::mk(id, *tag));
                (b_call(|| bv.push(ea)).map(|_| Ret::Unit), s_call(|| sv.push(eb)).map(|_| Ret::Unit))
            }
            VOp::Pop => (
                b_call(|| bv.pop()).map(|o| Ret::Elems(o.map(take_elem).into_iter().collect())),
                s_call(|| sv.pop()).map(|o| Ret::Elems(o.map(take_elem).into_iter().collect())),
            ),
            VOp::Insert(p, tag) => {
                let i = p.at(len);
                let id = track::fresh_id();
                let (ea, eb) = (A::mk(id, *tag), B::mk(id, *tag));
                (b_call(|| bv.insert(i, ea)).map(|_| Ret::Unit), s_call(|| sv.insert(i, eb)).map(|_| Ret::Unit))
            }
            VOp::Remove(p) => {
                let i = p.at(len);
                (
                    b_call(|| bv.remove(i)).map(|e| Ret::Elems(vec![take_elem(e)])),
                    s_call(|| sv.remove(i)).map(|e| Ret::Elems(vec![take_elem(e)])),
                )
            }
            VOp::SwapRemove(p) => {
                let i = p.at(len);
                (
                    b_call(|| bv.swap_remove(i)).map(|e| Ret::Elems(vec![take_elem(e)])),
                    s_call(|| sv.swap_remove(i)).map(|e| Ret::Elems(vec![take_elem(e)])),
                )
            }
            VOp::Truncate(p) => {
                let n = p.at(len);
                (b_call(|| bv.truncate(n)).map(|_| Ret::Unit), s_call(|| sv.truncate(n)).map(|_| Ret::Unit))
            }
            VOp::Clear => (b_call(|| bv.clear()).map(|_| Ret::Unit), s_call(|| sv.clear()).map(|_| Ret::Unit)),
            VOp::Resize(p, tag) => {
                let n = if A::ZST { p.at(len).min(100_000) } else { p.at(len).min(len + 600) };
                let id = track::fresh_id();
                let (ea, eb) = (A::mk(id, *tag), B::mk(id, *tag));
                (b_call(|| bv.resize(n, ea)).map(|_| Ret::Unit), s_call(|| sv.resize(n, eb)).map(|_| Ret::Unit))
            }
            VOp::Extend { n, tag0, hint } => {
                let ids = fresh_ids(*n);
                (
                    b_call(|| bv.extend(TagIter::<A>::new(&ids, *tag0, *hint))).map(|_| Ret::Unit),
                    s_call(|| sv.extend(TagIter::<B>::new(&ids, *tag0, *hint))).map(|_| Ret::Unit),
                )
            }
            VOp::ExtendFromSlice { n, tag0 } => {
                let ids = fresh_ids(*n);
                let srca: Vec<A> = TagIter::<A>::new(&ids, *tag0, HintKind::Exact).collect();
                let srcb: Vec<B> = TagIter::<B>::new(&ids, *tag0, HintKind::Exact).collect();
                let r = (
                    b_call(|| bv.extend_from_slice(&srca)).map(|_| Ret::Unit),
                    s_call(|| sv.extend_from_slice(&srcb)).map(|_| Ret::Unit),
                );
                drop(srca);
                drop(srcb);
                r
            }
            VOp::Append { n, tag0 } => {
                let ids = fresh_ids(*n);
                let rb = b_call(|| {
                    let mut other = BVec::from_iter_in(TagIter::<A>::new(&ids, *tag0, HintKind::Exact), bump);
                    bv.append(&mut other);
                    other.len()
                });
                let rs = s_call(|| {
                    let mut other: Vec<B> = TagIter::<B>::new(&ids, *tag0, HintKind::Exact).collect();
                    sv.append(&mut other);
                    other.len()
                });
                (rb.map(|n| Ret::Num(n as u64)), rs.map(|n| Ret::Num(n as u64)))
            }
            VOp::SplitOff(p) => {
                let at = p.at(len);
                let rb = b_call(|| {
                    let tail = bv.split_off(at);
                    let r = Ret::Elems(tail.iter().map(key).collect());
                    drop(tail);
                    r
                });
                let rs = s_call(|| {
                    let tail = sv.split_off(at);
                    Ret::Elems(tail.iter().map(key).collect())
                });
                (rb, rs)
            }
            VOp::Drain(r, how) => {
                let range = (r.lo.at(len), r.hi.at(len));
                (
                    b_call(|| consume_iter(bv.drain(range), *how)),
                    s_call(|| consume_iter(sv.drain(range), *how)),
                )
            }
            VOp::Splice(r, n, tag0, hint, how) => {
                let range = (r.lo.at(len), r.hi.at(len));
                let ids = fresh_ids(*n);
                (
                    b_call(|| consume_iter(bv.splice(range, TagIter::<A>::new(&ids, *tag0, *hint)), *how)),
                    s_call(|| consume_iter(sv.splice(range, TagIter::<B>::new(&ids, *tag0, *hint)), *how)),
                )
            }
            VOp::Retain(pred) => (
                b_call(|| {
                    bv.retain(|e| {
                        let _g = harness_scope();
                        tick(TICK_CLOSURE);
                        pred.eval(e.etag())
                    })
                })
                .map(|_| Ret::Unit),
                s_call(|| sv.retain(|e| pred.eval(e.etag()))).map(|_| Ret::Unit),
            ),
            VOp::DrainFilter(pred, how) => {
                // bumpalo's DrainFilter keeps filtering when dropped (the behaviour std had when
                // this code was forked); the reference is therefore "all matching elements are
                // removed, the first ones are handed to the caller"
                let rb = b_call(|| {
                    let it = bv.drain_filter(|e| {
                        let _g = harness_scope();
                        tick(TICK_CLOSURE);
                        pred.eval(e.etag())
                    });
                    consume_forward(it, *how)
                });
                let rs = s_call(|| {
                    let mut removed = Vec::new();
                    let mut kept = Vec::new();
                    for e in sv.drain(..) {
                        if pred.eval(e.etag()) {
                            removed.push(e);
                        } else {
                            kept.push(e);
                        }
                    }
                    *sv = kept;
                    let take = match how {
                        Consume::All | Consume::AllBack => removed.len(),
                        Consume::Mixed(f, b) => (*f as usize + *b as usize).min(removed.len()),
                        Consume::DropNow | Consume::Forget => 0,
                        Consume::TakeForget(k) => (*k as usize).min(removed.len()),
                    };
                    let out: Vec<(u32, u32)> = removed.iter().take(take).map(key).collect();
                    if matches!(how, Consume::Forget | Consume::TakeForget(_)) {
                        // a forgotten DrainFilter leaves the vector empty (its length was set to
                        // zero up front); everything not handed out is leaked, never dropped
                        let mut it = removed.into_iter();
                        for _ in 0..take {
                            drop(it.next());
                        }
                        std::mem::forget(it);
                        let kept = std::mem::take(sv);
                        std::mem::forget(kept);
                    } else {
                        drop(removed);
                    }
                    Ret::Elems(out)
                });
                (rb, rs)
            }
            VOp::Dedup => (b_call(|| bv.dedup()).map(|_| Ret::Unit), s_call(|| sv.dedup()).map(|_| Ret::Unit)),
            VOp::DedupBy(same) => (
                b_call(|| {
                    bv.dedup_by(|a, b| {
                        let _g = harness_scope();
                        tick(TICK_CLOSURE);
                        same.eval(a.etag(), b.etag())
                    })
                })
                .map(|_| Ret::Unit),
                s_call(|| sv.dedup_by(|a, b| same.eval(a.etag(), b.etag()))).map(|_| Ret::Unit),
            ),
            VOp::DedupByKey(d) => (
                b_call(|| {
                    bv.dedup_by_key(|a| {
                        let _g = harness_scope();
                        tick(TICK_CLOSURE);
                        a.etag() / (*d).max(1)
                    })
                })
                .map(|_| Ret::Unit),
                s_call(|| sv.dedup_by_key(|a| a.etag() / (*d).max(1))).map(|_| Ret::Unit),
            ),
            VOp::Reserve(p) | VOp::ReserveExact(p) | VOp::TryReserve(p) | VOp::TryReserveExact(p) => {
                let n = match p {
                    Pos::M(_) => p.at(len),
                    _ if A::ZST => p.at(len),
                    _ => p.at(len).min(3000),
                };
                let rb: Result<bool, ()> = match op {
                    VOp::Reserve(_) => b_call(|| bv.reserve(n)).map(|_| true),
                    VOp::ReserveExact(_) => b_call(|| bv.reserve_exact(n)).map(|_| true),
                    VOp::TryReserve(_) => b_call(|| bv.try_reserve(n).is_ok()),
                    _ => b_call(|| bv.try_reserve_exact(n).is_ok()),
                };
                let rs: Result<bool, ()> = match op {
                    VOp::Reserve(_) => s_call(|| sv.reserve(n)).map(|_| true),
                    VOp::ReserveExact(_) => s_call(|| sv.reserve_exact(n)).map(|_| true),
                    VOp::TryReserve(_) => s_call(|| sv.try_reserve(n).is_ok()),
                    _ => s_call(|| sv.try_reserve_exact(n).is_ok()),
                };
                if rb == Ok(true) {
                    if let Some(need) = len.checked_add(n) {
                        if bv.capacity() < need {
                            extra = Some(("C13", "reserve-not-honoured", format!("len {} + {} > capacity {}", len, n, bv.capacity())));
                        }
                    }
                }
                (rb.map(Ret::Flag), rs.map(Ret::Flag))
            }
            VOp::TryReserveLimited { n, exact, headroom } => {
                let n = if A::ZST { *n } else { (*n).min(3000) };
                let (cap_before, buf_before) = (bv.capacity(), bv.as_ptr() as usize);
                let lim = bump.allocated_bytes().saturating_add(*headroom);
                bump.set_allocation_limit(Some(lim));
                let rb = b_call(|| if *exact { bv.try_reserve_exact(n).is_ok() } else { bv.try_reserve(n).is_ok() });
                bump.set_allocation_limit(None);
                match rb {
                    Ok(true) => {
                        if let Some(need) = len.checked_add(n) {
                            if bv.capacity() < need {
                                extra = Some(("C13", "reserve-not-honoured", format!("len {} + {} > capacity {}", len, n, bv.capacity())));
                            }
                        }
                        let rs = s_call(|| if *exact { sv.try_reserve_exact(n).is_ok() } else { sv.try_reserve(n).is_ok() });
                        (Ok(Ret::Flag(true)), rs.map(Ret::Flag))
                    }
                    Ok(false) => {
                        // std has no such failure; the reference is "nothing happened"
                        if bv.capacity() != cap_before || bv.as_ptr() as usize != buf_before {
                            extra = Some((
                                "C13",
                                "failed-try-reserve-changed-the-vector",
                                format!("capacity {} -> {} after try_reserve({}) returned Err", cap_before, bv.capacity(), n),
                            ));
                        }
                        (Ok(Ret::Unit), Ok(Ret::Unit))
                    }
                    Err(()) => (Err(()), Ok(Ret::Unit)),
                }
            }
            VOp::ShrinkToFit => (b_call(|| bv.shrink_to_fit()).map(|_| Ret::Unit), s_call(|| sv.shrink_to_fit()).map(|_| Ret::Unit)),
            VOp::CloneCmp => {
                // clone, then the comparison / view / borrowing glue, observed as one text per world
                macro_rules! views {
                    ($v:expr) => {{
                        let v = $v;
                        let mut c = v.clone();
                        let mut out: Vec<(u32, u32)> = c.iter().map(|e| (0, e.etag())).collect();
                        let mut flags = vec![c == *v, c == &v[..], format!("{:?}", v) == format!("{:?}", &v[..])];
                        flags.push(AsRef::<[_]>::as_ref(v).len() == v.len());
                        flags.push(std::borrow::Borrow::<[_]>::borrow(v).len() == v.len());
                        flags.push((&*v).into_iter().map(|e| e.etag() as u64).sum::<u64>() == (&mut c).into_iter().map(|e| e.etag() as u64).sum::<u64>());
                        flags.push(c.as_mut_ptr() as usize == c.as_ptr() as usize);
                        c.as_mut_slice().reverse();
                        flags.push(c == *v);
                        AsMut::<[_]>::as_mut(&mut c).reverse();
                        std::borrow::BorrowMut::<[_]>::borrow_mut(&mut c).rotate_left(if v.is_empty() { 0 } else { 1 });
                        flags.push(c == *v);
                        if !v.is_empty() {
                            c.truncate(v.len() - 1);
                            flags.push(c == *v);
                            flags.push(c != *v);
                            flags.push(*v == &mut c[..]);
                        }
                        out.extend(flags.into_iter().map(|f| (1, f as u32)));
                        drop(c);
                        // Serialize (feature `serde`): the same JSON as std's vector
                        let json = {
                            let _g = harness_scope();
                            serde_json::to_string(v).unwrap_or_else(|e| format!("error {}", e))
                        };
                        out.push((2, crate::rng::fnv(&json) as u32));
                        Ret::Elems(out)
                    }};
                }
                let rb = b_call(|| views!(&*bv));
                let rs = s_call(|| views!(&*sv));
                (rb, rs)
            }
            VOp::RawPush(tag) => {
                let id = track::fresh_id();
                let (ea, eb) = (A::mk(id, *tag), B::mk(id, *tag));
                (
                    b_call(|| {
                        bv.reserve(1);
                        let l = bv.len();
                        unsafe {
                            bv.as_mut_ptr().add(l).write(ea);
                            bv.set_len(l + 1);
                        }
                    })
                    .map(|_| Ret::Unit),
                    s_call(|| {
                        sv.reserve(1);
                        let l = sv.len();
                        unsafe {
                            sv.as_mut_ptr().add(l).write(eb);
                            sv.set_len(l + 1);
                        }
                    })
                    .map(|_| Ret::Unit),
                )
            }
            VOp::SetLenShrink(p) => {
                let k = p.at(len).min(len);
                (b_call(|| unsafe { bv.set_len(k) }).map(|_| Ret::Unit), s_call(|| unsafe { sv.set_len(k) }).map(|_| Ret::Unit))
            }
            VOp::SetIndex(p, tag) => {
                let i = p.at(len);
                let id = track::fresh_id();
                let (ea, eb) = (A::mk(id, *tag), B::mk(id, *tag));
                (
                    b_call(|| {
                        bv[i] = ea;
                    })
                    .map(|_| Ret::Unit),
                    s_call(|| {
                        sv[i] = eb;
                    })
                    .map(|_| Ret::Unit),
                )
            }
            VOp::GetIndex(p) => {
                let i = p.at(len);
                (b_call(|| key(&bv[i])).map(|k| Ret::Elems(vec![k])), s_call(|| key(&sv[i])).map(|k| Ret::Elems(vec![k])))
            }
            VOp::Swap(p, q) => {
                let (i, j) = (p.at(len), q.at(len));
                (b_call(|| bv.swap(i, j)).map(|_| Ret::Unit), s_call(|| sv.swap(i, j)).map(|_| Ret::Unit))
            }
            VOp::Reverse => (b_call(|| bv.reverse()).map(|_| Ret::Unit), s_call(|| sv.reverse()).map(|_| Ret::Unit)),
            VOp::CmpHash => {
                let hb = b_call(|| {
                    let mut h = std::collections::hash_map::DefaultHasher::new();
                    bv.hash(&mut h);
                    (h.finish(), bv.first().map(key), bv.last().map(key), bv.is_empty())
                });
                let hs = s_call(|| {
                    let mut h = std::collections::hash_map::DefaultHasher::new();
                    sv.hash(&mut h);
                    (h.finish(), sv.first().map(key), sv.last().map(key), sv.is_empty())
                });
                (hb.map(|x| Ret::Text(format!("{:?}", x))), hs.map(|x| Ret::Text(format!("{:?}", x))))
            }
            VOp::ExtendCopy { .. } | VOp::ExtendSlicesCopy { .. } | VOp::ExtendRef { .. } | VOp::Write { .. } => {
                // only for Copy element types (handled by exec_copy); a no-op elsewhere
                (Ok(Ret::Unit), Ok(Ret::Unit))
            }
            VOp::IntoIter(_) | VOp::IntoBumpSlice { .. } | VOp::IntoBoxedSlice | VOp::DropVec | VOp::Recreate(_) | VOp::DropHeldBox | VOp::RawPartsRoundTrip => unreachable!(),
            VOp::IterHold | VOp::DrainHold(_) | VOp::IterNext { .. } | VOp::IterRelease => unreachable!(),
        };
        // C13/C18(d): after a successful reserve(n) the next n pushed elements do not move the buffer
        let _ = (buf0, cap0);
        if let Some(bv) = self.b.as_ref() {
            let growing = matches!(op, VOp::Push(_) | VOp::Extend { .. } | VOp::ExtendFromSlice { .. });
            if let (Some((buf, upto)), true, false) = (self.promised, growing && b.is_ok(), A::ZST) {
                if bv.len() <= upto && bv.as_ptr() as usize != buf {
                    extra = extra.or(Some((
                        "C18",
                        "vec-moved-within-reserved-capacity",
                        format!("len {} promised {}", bv.len(), upto),
                    )));
                }
            }
            match op {
                VOp::Reserve(p) | VOp::ReserveExact(p) | VOp::TryReserve(p) | VOp::TryReserveExact(p) if b == Ok(Ret::Flag(true)) => {
                    let n = p.at(len).min(3000);
                    self.promised = len.checked_add(n).map(|u| (bv.as_ptr() as usize, u));
                }
                _ if growing => {}
                VOp::GetIndex(_) | VOp::CmpHash | VOp::CloneCmp => {}
                _ => self.promised = None,
            }
        }
        OpOutcome { b, s, extra }
    }
}

fn consume_forward<E: Elem, I: Iterator<Item = E>>(mut it: I, how: Consume) -> Ret {
    let mut out = Vec::new();
    // the reference for DrainFilter is computed by hand, so its size hint is judged against the
    // Iterator contract instead: lower bound <= what is actually yielded <= upper bound
    let h0 = it.size_hint();
    match how {
        Consume::All | Consume::AllBack => {
            while let Some(e) = it.next() {
                out.push(take_elem(e));
            }
        }
        Consume::Mixed(f, b) => {
            for _ in 0..(f as usize + b as usize) {
                match it.next() {
                    Some(e) => out.push(take_elem(e)),
                    None => break,
                }
            }
        }
        Consume::DropNow => {}
        Consume::Forget => {
            std::mem::forget(it);
            return Ret::Elems(out);
        }
        Consume::TakeForget(k) => {
            for _ in 0..k {
                match it.next() {
                    Some(e) => out.push(take_elem(e)),
                    None => break,
                }
            }
            std::mem::forget(it);
            return Ret::Elems(out);
        }
    }
    if matches!(how, Consume::All | Consume::AllBack) {
        let n = out.len();
        let h1 = it.size_hint();
        let fused = it.next().is_none();
        if h0.0 > n || h0.1.map_or(false, |h| h < n) || h1.0 != 0 || !fused {
            out.push((199, 0));
        }
    }
    drop(it);
    Ret::Elems(out)
}

/// ops that need `T: Copy`
impl<A: Elem + Copy> VecPair<A, A> {
    pub fn exec_copy(&mut self, bump: &'static Bump, op: &VOp) -> Option<OpOutcome> {
        match op {
            VOp::ExtendCopy { .. } | VOp::ExtendSlicesCopy { .. } | VOp::ExtendRef { .. } => {}
            _ => return None,
        }
        self.release_held();
        self.ensure(bump);
        let bv = self.b.as_mut().unwrap();
        let sv = self.s.as_mut().unwrap();
        let (b, s) = match op {
            VOp::ExtendCopy { n, tag0 } => {
                let src: Vec<A> = (0..*n).map(|i| A::mk(0, tag0.wrapping_add(i as u32))).collect();
                (
                    b_call(|| bv.extend_from_slice_copy(&src)).map(|_| Ret::Unit),
                    s_call(|| sv.extend_from_slice(&src)).map(|_| Ret::Unit),
                )
            }
            VOp::ExtendSlicesCopy { ns, tag0 } => {
                let srcs: Vec<Vec<A>> = ns
                    .iter()
                    .enumerate()
                    .map(|(k, n)| (0..*n).map(|i| A::mk(0, tag0.wrapping_add((k * 7 + i) as u32))).collect())
                    .collect();
                let refs: Vec<&[A]> = srcs.iter().map(|v| v.as_slice()).collect();
                (
                    b_call(|| bv.extend_from_slices_copy(&refs)).map(|_| Ret::Unit),
                    s_call(|| {
                        for r in &refs {
                            sv.extend_from_slice(r);
                        }
                    })
                    .map(|_| Ret::Unit),
                )
            }
            VOp::ExtendRef { n, tag0 } => {
                let src: Vec<A> = (0..*n).map(|i| A::mk(0, tag0.wrapping_add(i as u32))).collect();
                (b_call(|| bv.extend(src.iter())).map(|_| Ret::Unit), s_call(|| sv.extend(src.iter())).map(|_| Ret::Unit))
            }
            _ => unreachable!(),
        };
        self.promised = None;
        Some(OpOutcome { b, s, extra: None })
    }
}

impl VecPair<u8, u8> {
    pub fn exec_write(&mut self, bump: &'static Bump, op: &VOp) -> Option<OpOutcome> {
        use std::io::Write;
        let VOp::Write { n, seed, all } = op else { return None };
        self.release_held();
        self.ensure(bump);
        let bv = self.b.as_mut().unwrap();
        let sv = self.s.as_mut().unwrap();
        let data: Vec<u8> = (0..*n).map(|i| crate::common::pat(*seed, i)).collect();
        let (b, s) = if *all {
            (
                b_call(|| bv.write_all(&data).is_ok()).map(Ret::Flag),
                s_call(|| sv.write_all(&data).is_ok()).map(Ret::Flag),
            )
        } else {
            (
                b_call(|| {
                    let r = bv.write(&data).ok();
                    let f = bv.flush().is_ok();
                    (r, f)
                })
                .map(|x| Ret::Text(format!("{:?}", x))),
                s_call(|| {
                    let r = sv.write(&data).ok();
                    let f = sv.flush().is_ok();
                    (r, f)
                })
                .map(|x| Ret::Text(format!("{:?}", x))),
            )
        };
        self.promised = None;
        Some(OpOutcome { b, s, extra: None })
    }
}
