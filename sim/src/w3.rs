//! W3: panic points (C16). A callback-taking operation is executed on a seeded pre-state with
//! an injected panic at the k-th callback invocation; afterwards nothing may have been (or ever
//! be) dropped twice, nothing dropped or moved-out may be reachable, text must be UTF-8, and the
//! arena must be usable. Leaks are allowed.

use crate::common::*;
use crate::simalloc::{self, harness_scope, Placement};
use crate::track::{self, tick, Big, Elem, Tr, Zt, TICK_CLOSURE, TICK_ITER};
use crate::w2_ops::{Consume, HintKind, Pred, Rng2, Same, VT};
use crate::w2_str::CharIter;
use crate::w2_vec::{b_call, TagIter};
use bumpalo::boxed::Box as BBox;
use bumpalo::collections::{CollectIn, String as BString, Vec as BVec};
use bumpalo::Bump;
use serde::{Deserialize, Serialize};

#[derive(Clone, Debug, PartialEq, Serialize, Deserialize)]
pub enum TOp {
    Retain(Pred),
    DrainFilter(Pred, Consume),
    Dedup,
    DedupBy(Same),
    DedupByKey(u32),
    Resize(usize, u32),
    Extend { n: usize, hint: HintKind },
    ExtendFromSlice { n: usize },
    CloneVec,
    Splice(Rng2, usize, HintKind, Consume),
    FromIterIn { n: usize, hint: HintKind },
    CollectIn { n: usize },
    MacroRepeat { n: usize },
    Truncate(usize),
    Clear,
    DropVec,
    IntoIterDrop(Consume),
    DrainDrop(Rng2, Consume),
    SetIndex(usize),
    Insert(usize),
    BoxedSliceDrop,
    // arena slice / value initialisers
    SliceFillWith { n: usize },
    SliceClone { n: usize },
    SliceFillIter { n: usize },
    SliceFillDefault { n: usize },
    SliceFillClone { n: usize },
    AllocWith,
    AllocTryWith { fail: bool },
    SliceTryFillWith { n: usize, fail_at: Option<usize> },
    // strings
    StrRetain(Pred),
    StrExtend(String),
    StrFromIter(String),
    StrExtendStrs(usize),
    /// `write!` (macro = false) / `bumpalo::format!` (macro = true) with `n` arguments whose
    /// `Display` writes a multi-byte character in two pieces and may panic in between
    StrWriteFmt { n: usize, in_macro: bool },
    /// `collect_in::<String>` / `String::from_iter_in` over `&str` pieces
    StrCollectIn(usize),
    // boxes
    BoxDrop,
    BoxArrayDrop,
    /// `Box::from_iter_in` (collect = false) / `collect_in::<Box<[T]>>` (collect = true)
    BoxFromIterIn { n: usize, hint: HintKind, collect: bool },
    /// `collect_in::<Result<Vec<T>, u32>>`; the `stop_at`-th item is `Err`
    CollectInResult { n: usize, stop_at: Option<usize> },
    /// fallible twins of the value initialisers
    TryAllocWith,
    TryAllocTryWith { fail: bool },
    SliceTryFillIter { n: usize, fail_at: Option<usize> },
}

#[derive(Clone, Copy, Debug, PartialEq, Eq, Serialize, Deserialize)]
pub enum Follow {
    DropNow,
    Continue,
}

#[derive(Clone, Debug, PartialEq, Serialize, Deserialize)]
pub struct W3Script {
    pub elem: VT,
    /// tags of the initial vector contents (or chars for string targets)
    pub pre: Vec<u32>,
    pub pre_text: String,
    /// capacity slack left in the vector before the op (forces/avoids reallocation)
    pub spare: usize,
    pub target: TOp,
    /// which callback classes count (and may panic): TICK_* bits
    pub mask: u64,
    /// 0 = count only
    pub panic_at: u64,
    pub follow: Follow,
    pub placement: Placement,
    /// closures (initialisers, predicates) allocate a small block in the same arena, and keep it,
    /// before they do anything else: what they allocated must survive the unwinding and whatever
    /// the arena hands out afterwards
    #[serde(default)]
    pub inner_alloc: bool,
}

pub struct W3Report {
    pub violations: Vec<Violation>,
    pub stats: Stats,
    pub fp: u64,
    /// number of callback invocations counted
    pub callbacks: u64,
    pub fired: bool,
}

thread_local! {
    static INNER_ON: std::cell::Cell<bool> = const { std::cell::Cell::new(false) };
    static INNER: std::cell::RefCell<Vec<usize>> = const { std::cell::RefCell::new(Vec::new()) };
}
const INNER_FILL: u8 = 0xC7;
const INNER_SIZE: usize = 24;

/// called first thing inside a callback, still on behalf of the arena
fn inner_alloc(bump: &Bump) {
    if !INNER_ON.with(|c| c.get()) {
        return;
    }
    let p = bump.alloc_layout(std::alloc::Layout::from_size_align(INNER_SIZE, 1).unwrap()).as_ptr();
    unsafe { std::ptr::write_bytes(p, INNER_FILL, INNER_SIZE) };
    let _g = harness_scope();
    INNER.with(|v| v.borrow_mut().push(p as usize));
}

fn inner_disturbed() -> Option<usize> {
    INNER.with(|v| {
        v.borrow()
            .iter()
            .position(|&a| (0..INNER_SIZE).any(|k| unsafe { *(a as *const u8).add(k) } != INNER_FILL))
    })
}

fn fresh_ids(n: usize) -> Vec<u32> {
    (0..n).map(|_| track::fresh_id()).collect()
}

struct Ck {
    viol: Vec<Violation>,
    name: String,
}
impl Ck {
    fn violate(&mut self, oracle: &str, facts: &str, detail: String) {
        let sig = if facts.is_empty() { format!("C16/{}", oracle) } else { format!("C16/{}/{}", oracle, facts) };
        self.viol.push(Violation {
            prop: "C16".into(),
            sig,
            op: self.name.clone(),
            at: 0,
            detail,
        });
    }
    fn ledger(&mut self, when: &str) {
        let dd = track::ledger(|l| {
            let z = l.zst_dropped[0] > l.zst_created[0];
            (l.double_drops.first().copied(), z)
        });
        if let Some((w, id)) = dd.0 {
            let n = self.name.clone();
            self.violate("double-drop", &n, format!("value #{} dropped twice (world {}) {}", id, w, when));
        } else if dd.1 {
            let n = self.name.clone();
            self.violate("double-drop", &n, format!("more zero-sized values dropped than created {}", when));
        }
    }
    fn reachable<E: Elem>(&mut self, items: &[&E], when: &str) {
        if !E::TRACKED {
            return;
        }
        let mut ids: Vec<u32> = items.iter().map(|e| e.eid()).collect();
        let bad = track::ledger(|l| ids.iter().copied().find(|&id| l.get(0, id) != 1));
        let n = self.name.clone();
        if let Some(id) = bad {
            self.violate("dropped-value-reachable", &n, format!("value #{} reachable through the container but not live {}", id, when));
            return;
        }
        ids.sort_unstable();
        if let Some(w) = ids.windows(2).find(|w| w[0] == w[1]) {
            self.violate("value-reachable-twice", &n, format!("value #{} {}", w[0], when));
        }
    }
}

fn pred_cb<E: Elem>(p: Pred) -> impl FnMut(&mut E) -> bool {
    move |e: &mut E| {
        let _g = harness_scope();
        tick(TICK_CLOSURE);
        p.eval(e.etag())
    }
}

fn consume_fwd<E, I: Iterator<Item = E>>(mut it: I, how: Consume) {
    let n = match how {
        Consume::All | Consume::AllBack => usize::MAX,
        Consume::Mixed(f, b) => f as usize + b as usize,
        Consume::DropNow | Consume::Forget => 0,
        Consume::TakeForget(k) => k as usize,
    };
    for _ in 0..n {
        match it.next() {
            Some(e) => {
                let _g = harness_scope();
                drop(e)
            }
            None => break,
        }
    }
    if matches!(how, Consume::Forget | Consume::TakeForget(_)) {
        std::mem::forget(it);
    }
}

fn consume_de<E, I: DoubleEndedIterator<Item = E>>(mut it: I, how: Consume) {
    match how {
        Consume::All => {
            while let Some(e) = it.next() {
                drop(e)
            }
        }
        Consume::AllBack => {
            while let Some(e) = it.next_back() {
                drop(e)
            }
        }
        Consume::Mixed(f, b) => {
            for _ in 0..f {
                if let Some(e) = it.next() {
                    drop(e)
                }
            }
            for _ in 0..b {
                if let Some(e) = it.next_back() {
                    drop(e)
                }
            }
        }
        Consume::DropNow => {}
        Consume::Forget => {
            std::mem::forget(it);
            return;
        }
        Consume::TakeForget(k) => {
            for _ in 0..k {
                if let Some(e) = it.next() {
                    drop(e)
                }
            }
            std::mem::forget(it);
            return;
        }
    }
    drop(it);
}

fn run_vec<E: Elem>(s: &W3Script, bump: &'static Bump, ck: &mut Ck, stats: &mut Stats) -> (u64, bool) {
    // pre-state, built with nothing armed
    let ids = fresh_ids(s.pre.len());
    let mut v: BVec<'static, E> = b_call(|| {
        let mut v = BVec::with_capacity_in(s.pre.len() + s.spare, bump);
        for (i, &t) in s.pre.iter().enumerate() {
            v.push(E::mk(ids[i], t));
        }
        v
    })
    .expect("pre-state");
    // a canary neighbour
    let canary = b_call(|| bump.alloc_slice_fill_copy(24, 0x5Au8).as_ptr() as usize).unwrap_or(0);
    let len = v.len();
    // values the harness itself holds across the call
    let mut held: Vec<E> = Vec::new();
    let mut second: Option<BVec<'static, E>> = None;
    let mut boxed: Option<BBox<'static, [E]>> = None;
    let mut v_opt: Option<BVec<'static, E>>;
    let src_ids;
    match &s.target {
        TOp::ExtendFromSlice { n } | TOp::SliceClone { n } => {
            src_ids = fresh_ids(*n);
            held = src_ids.iter().enumerate().map(|(i, &id)| E::mk(id, i as u32 % 5)).collect();
        }
        TOp::SliceFillClone { .. } => {
            held = vec![E::mk(track::fresh_id(), 3)];
        }
        _ => {}
    }
    track::arm(s.mask, s.panic_at);
    let r = match &s.target {
        TOp::Retain(p) => {
            let p = *p;
            let r = b_call(|| {
                v.retain(|e| {
                    let _g = harness_scope();
                    tick(TICK_CLOSURE);
                    p.eval(e.etag())
                })
            });
            v_opt = Some(v);
            r
        }
        TOp::DrainFilter(p, how) => {
            let r = b_call(|| consume_fwd(v.drain_filter(pred_cb::<E>(*p)), *how));
            v_opt = Some(v);
            r
        }
        TOp::Dedup => {
            let r = b_call(|| v.dedup());
            v_opt = Some(v);
            r
        }
        TOp::DedupBy(same) => {
            let same = *same;
            let r = b_call(|| {
                v.dedup_by(|a, b| {
                    let _g = harness_scope();
                    tick(TICK_CLOSURE);
                    same.eval(a.etag(), b.etag())
                })
            });
            v_opt = Some(v);
            r
        }
        TOp::DedupByKey(d) => {
            let d = (*d).max(1);
            let r = b_call(|| {
                v.dedup_by_key(|a| {
                    let _g = harness_scope();
                    tick(TICK_CLOSURE);
                    a.etag() / d
                })
            });
            v_opt = Some(v);
            r
        }
        TOp::Resize(n, tag) => {
            let e = E::mk(track::fresh_id(), *tag);
            let n = (*n).min(200);
            let r = b_call(|| v.resize(n, e));
            v_opt = Some(v);
            r
        }
        TOp::Extend { n, hint } => {
            let ids = fresh_ids(*n);
            let r = b_call(|| v.extend(TagIter::<E>::new(&ids, 1, *hint)));
            v_opt = Some(v);
            r
        }
        TOp::ExtendFromSlice { .. } => {
            let r = b_call(|| v.extend_from_slice(&held));
            v_opt = Some(v);
            r
        }
        TOp::CloneVec => {
            let r = b_call(|| v.clone()).map(|c| {
                second = Some(c);
            });
            v_opt = Some(v);
            r
        }
        TOp::Splice(range, n, hint, how) => {
            let ids = fresh_ids(*n);
            let rg = (range.lo.at(len), range.hi.at(len));
            let r = b_call(|| consume_de(v.splice(rg, TagIter::<E>::new(&ids, 2, *hint)), *how));
            v_opt = Some(v);
            r
        }
        TOp::FromIterIn { n, hint } => {
            let ids = fresh_ids(*n);
            let r = b_call(|| BVec::from_iter_in(TagIter::<E>::new(&ids, 1, *hint), bump)).map(|c| {
                second = Some(c);
            });
            v_opt = Some(v);
            r
        }
        TOp::CollectIn { n } => {
            let ids = fresh_ids(*n);
            let r = b_call(|| TagIter::<E>::new(&ids, 1, HintKind::Exact).collect_in::<BVec<E>>(bump)).map(|c| {
                second = Some(c);
            });
            v_opt = Some(v);
            r
        }
        TOp::MacroRepeat { n } => {
            let e = E::mk(track::fresh_id(), 4);
            let n = (*n).min(200);
            let r = b_call(|| bumpalo::vec![in bump; e; n]).map(|c| {
                second = Some(c);
            });
            v_opt = Some(v);
            r
        }
        TOp::Truncate(n) => {
            let n = *n;
            let r = b_call(|| v.truncate(n));
            v_opt = Some(v);
            r
        }
        TOp::Clear => {
            let r = b_call(|| v.clear());
            v_opt = Some(v);
            r
        }
        TOp::DropVec => {
            v_opt = None;
            b_call(move || drop(v))
        }
        TOp::IntoIterDrop(how) => {
            v_opt = None;
            let how = *how;
            b_call(move || consume_de(v.into_iter(), how))
        }
        TOp::DrainDrop(range, how) => {
            let rg = (range.lo.at(len), range.hi.at(len));
            let r = b_call(|| consume_de(v.drain(rg), *how));
            v_opt = Some(v);
            r
        }
        TOp::SetIndex(i) => {
            let e = E::mk(track::fresh_id(), 9);
            let i = *i;
            let r = b_call(|| {
                if i < v.len() {
                    v[i] = e;
                }
            });
            v_opt = Some(v);
            r
        }
        TOp::Insert(i) => {
            let e = E::mk(track::fresh_id(), 9);
            let i = (*i).min(len);
            let r = b_call(|| v.insert(i, e));
            v_opt = Some(v);
            r
        }
        TOp::BoxedSliceDrop => {
            v_opt = None;
            b_call(move || drop(v.into_boxed_slice()))
        }
        TOp::BoxDrop => {
            v_opt = Some(v);
            let e = E::mk(track::fresh_id(), 1);
            b_call(|| drop(BBox::new_in(e, bump)))
        }
        TOp::BoxArrayDrop => {
            v_opt = Some(v);
            let ids = fresh_ids(4);
            let a: [E; 4] = std::array::from_fn(|i| E::mk(ids[i], i as u32));
            b_call(|| {
                let b = BBox::new_in(a, bump);
                let s: BBox<[E]> = b.into();
                drop(s)
            })
        }
        TOp::BoxFromIterIn { n, hint, collect } => {
            v_opt = Some(v);
            let ids = fresh_ids(*n);
            let r = b_call(|| {
                if *collect {
                    TagIter::<E>::new(&ids, 1, *hint).collect_in::<BBox<[E]>>(bump)
                } else {
                    BBox::from_iter_in(TagIter::<E>::new(&ids, 1, *hint), bump)
                }
            });
            r.map(|b| {
                boxed = Some(b);
            })
        }
        TOp::CollectInResult { n, stop_at } => {
            v_opt = Some(v);
            let ids = fresh_ids(*n);
            let stop = *stop_at;
            let mut k = 0usize;
            let r = b_call(|| {
                TagIter::<E>::new(&ids, 1, HintKind::Exact)
                    .map(|e| {
                        let i = k;
                        k += 1;
                        if Some(i) == stop {
                            let _g = harness_scope();
                            drop(e);
                            Err(i as u32)
                        } else {
                            Ok(e)
                        }
                    })
                    .collect_in::<Result<BVec<E>, u32>>(bump)
            });
            r.map(|c| {
                if let Ok(c) = c {
                    second = Some(c);
                }
            })
        }
        TOp::TryAllocWith => {
            v_opt = Some(v);
            let id = track::fresh_id();
            b_call(|| {
                let _ = bump.try_alloc_with(|| {
                    inner_alloc(bump);
                    let _g = harness_scope();
                    tick(TICK_CLOSURE);
                    E::mk(id, 1)
                });
            })
        }
        TOp::TryAllocTryWith { fail } => {
            v_opt = Some(v);
            let id = track::fresh_id();
            let fail = *fail;
            b_call(|| {
                let r = bump.try_alloc_try_with(|| {
                    inner_alloc(bump);
                    let _g = harness_scope();
                    tick(TICK_CLOSURE);
                    if fail {
                        Err(E::mk(id, 1))
                    } else {
                        Ok(E::mk(id, 1))
                    }
                });
                if let Err(e) = r {
                    let _g = harness_scope();
                    drop(e);
                }
            })
        }
        TOp::SliceTryFillIter { n, fail_at } => {
            v_opt = Some(v);
            let ids = fresh_ids(*n + 1);
            let fail_at = *fail_at;
            let last = ids[ids.len() - 1];
            let mut k = 0usize;
            b_call(|| {
                let it = TagIterExact::<E> { it: TagIter::new(&ids[..ids.len() - 1], 1, HintKind::Exact) }.map(|e| {
                    let i = k;
                    k += 1;
                    if Some(i) == fail_at {
                        let _g = harness_scope();
                        drop(e);
                        Err(E::mk(last, 7))
                    } else {
                        Ok(e)
                    }
                });
                let r = bump.alloc_slice_try_fill_iter(it);
                if let Err(e) = r {
                    let _g = harness_scope();
                    drop(e);
                }
            })
        }
        TOp::SliceFillWith { n } => {
            v_opt = Some(v);
            let ids = fresh_ids(*n);
            b_call(|| {
                bump.alloc_slice_fill_with(ids.len(), |i| {
                    inner_alloc(bump);
                    let _g = harness_scope();
                    tick(TICK_CLOSURE);
                    E::mk(ids[i], i as u32)
                });
            })
        }
        TOp::SliceClone { .. } => {
            v_opt = Some(v);
            b_call(|| {
                bump.alloc_slice_clone(&held);
            })
        }
        TOp::SliceFillIter { n } => {
            v_opt = Some(v);
            let ids = fresh_ids(*n);
            b_call(|| {
                bump.alloc_slice_fill_iter(TagIterExact::<E> { it: TagIter::new(&ids, 1, HintKind::Exact) });
            })
        }
        TOp::SliceFillDefault { n } => {
            v_opt = Some(v);
            let n = (*n).min(64);
            b_call(|| {
                bump.alloc_slice_fill_default::<Tr<0>>(n);
            })
        }
        TOp::SliceFillClone { n } => {
            v_opt = Some(v);
            let n = (*n).min(64);
            b_call(|| {
                bump.alloc_slice_fill_clone(n, &held[0]);
            })
        }
        TOp::AllocWith => {
            v_opt = Some(v);
            let id = track::fresh_id();
            b_call(|| {
                bump.alloc_with(|| {
                    inner_alloc(bump);
                    let _g = harness_scope();
                    tick(TICK_CLOSURE);
                    E::mk(id, 1)
                });
            })
        }
        TOp::AllocTryWith { fail } => {
            v_opt = Some(v);
            let id = track::fresh_id();
            let fail = *fail;
            b_call(|| {
                let r = bump.alloc_try_with(|| {
                    inner_alloc(bump);
                    let _g = harness_scope();
                    tick(TICK_CLOSURE);
                    if fail {
                        Err(E::mk(id, 1))
                    } else {
                        Ok(E::mk(id, 1))
                    }
                });
                if let Err(e) = r {
                    let _g = harness_scope();
                    drop(e);
                }
            })
        }
        TOp::SliceTryFillWith { n, fail_at } => {
            v_opt = Some(v);
            let ids = fresh_ids(*n + 1);
            let fail_at = *fail_at;
            b_call(|| {
                let r = bump.alloc_slice_try_fill_with(ids.len() - 1, |i| {
                    inner_alloc(bump);
                    let _g = harness_scope();
                    tick(TICK_CLOSURE);
                    if Some(i) == fail_at {
                        Err(E::mk(ids[ids.len() - 1], 7))
                    } else {
                        Ok(E::mk(ids[i], i as u32))
                    }
                });
                if let Err(e) = r {
                    let _g = harness_scope();
                    drop(e);
                }
            })
        }
        TOp::StrRetain(_) | TOp::StrExtend(_) | TOp::StrFromIter(_) | TOp::StrExtendStrs(_) | TOp::StrWriteFmt { .. } | TOp::StrCollectIn(_) => unreachable!(),
    };
    let (count, fired) = track::disarm();
    if r.is_err() {
        stats.hit("w3_panic_propagated");
    }
    if fired && r.is_ok() {
        // the injected panic was swallowed by the operation: allowed by no statement, but not a
        // violation of C16 either; count it
        stats.hit("w3_panic_swallowed");
    }
    // ---- oracle after unwinding -----------------------------------------------------------
    ck.ledger("after unwinding");
    let collect = |v: &Option<BVec<'static, E>>, second: &Option<BVec<'static, E>>, boxed: &Option<BBox<'static, [E]>>| -> Vec<*const E> {
        let mut out: Vec<*const E> = Vec::new();
        if let Some(v) = v {
            out.extend(v.iter().map(|e| e as *const E));
        }
        if let Some(v) = second {
            out.extend(v.iter().map(|e| e as *const E));
        }
        if let Some(b) = boxed {
            out.extend(b.iter().map(|e| e as *const E));
        }
        out
    };
    if ck.viol.is_empty() {
        let ptrs = collect(&v_opt, &second, &boxed);
        let mut refs: Vec<&E> = ptrs.iter().map(|p| unsafe { &**p }).collect();
        refs.extend(held.iter());
        ck.reachable(&refs, "after unwinding");
    }
    // arena still usable; neighbour intact
    if ck.viol.is_empty() {
        let ok = b_call(|| {
            let x = bump.alloc(0x1234_5678_9abc_def0u64);
            *x == 0x1234_5678_9abc_def0u64
        });
        if ok != Ok(true) {
            ck.violate("arena-unusable", "", "allocation after the panic failed".into());
        }
        if canary != 0 && (0..24).any(|k| unsafe { *(canary as *const u8).add(k) } != 0x5A) {
            ck.violate("neighbour-disturbed", "", "canary block changed".into());
        }
        if let Some(i) = inner_disturbed() {
            ck.violate("block-allocated-by-callback-disturbed", "", format!("block #{} that a callback allocated in the arena before the panic was overwritten by a later allocation", i));
        }
    }
    // follow-up
    if ck.viol.is_empty() {
        if s.follow == Follow::Continue {
            if let Some(v) = v_opt.as_mut() {
                if !(E::ZST && v.len() > 1_000_000) {
                    let e = E::mk(track::fresh_id(), 6);
                    let r = b_call(|| {
                        v.push(e);
                        let p = v.pop();
                        let half = v.len() / 2;
                        v.truncate(half);
                        p.is_some()
                    });
                    if r.is_err() {
                        ck.violate("container-unusable", "", "push/pop/truncate after the panic panicked".into());
                    }
                    ck.ledger("after continuing to use the container");
                    if ck.viol.is_empty() {
                        let ptrs = collect(&v_opt, &None, &None);
                        let refs: Vec<&E> = ptrs.iter().map(|p| unsafe { &**p }).collect();
                        ck.reachable(&refs, "after continuing to use the container");
                    }
                }
            }
        }
        let (a, b, c) = (v_opt.take(), second.take(), boxed.take());
        let _ = b_call(move || {
            drop(a);
            drop(b);
            drop(c);
        });
        {
            let _g = harness_scope();
            drop(held);
        }
        ck.ledger("after dropping the container");
        if ck.viol.is_empty() {
            if let Some(i) = inner_disturbed() {
                ck.violate("block-allocated-by-callback-disturbed", "follow-up", format!("block #{} that a callback allocated in the arena was overwritten while the container was used and dropped", i));
            }
        }
    } else {
        std::mem::forget(v_opt);
        std::mem::forget(second);
        std::mem::forget(boxed);
        std::mem::forget(held);
    }
    (count, fired)
}

/// ExactSizeIterator wrapper (alloc_slice_fill_iter wants one)
struct TagIterExact<'a, E: Elem> {
    it: TagIter<'a, E>,
}
impl<'a, E: Elem> Iterator for TagIterExact<'a, E> {
    type Item = E;
    fn next(&mut self) -> Option<E> {
        self.it.next()
    }
    fn size_hint(&self) -> (usize, Option<usize>) {
        let r = self.it.ids.len() - self.it.i;
        (r, Some(r))
    }
}
impl<'a, E: Elem> ExactSizeIterator for TagIterExact<'a, E> {}

fn run_str(s: &W3Script, bump: &'static Bump, ck: &mut Ck, stats: &mut Stats) -> (u64, bool) {
    let mut b: BString<'static> = b_call(|| {
        let mut x = BString::with_capacity_in(s.pre_text.len() + s.spare, bump);
        x.push_str(&s.pre_text);
        x
    })
    .expect("pre-state");
    let mut second: Option<BString<'static>> = None;
    track::arm(s.mask, s.panic_at);
    let r = match &s.target {
        TOp::StrRetain(p) => {
            let p = *p;
            b_call(|| {
                b.retain(|c| {
                    let _g = harness_scope();
                    tick(TICK_CLOSURE);
                    p.eval(c as u32)
                })
            })
        }
        TOp::StrExtend(t) => b_call(|| b.extend(CharIter { it: t.chars(), tick: true })),
        TOp::StrFromIter(t) => b_call(|| BString::from_iter_in(CharIter { it: t.chars(), tick: true }, bump)).map(|x| {
            second = Some(x);
        }),
        TOp::StrExtendStrs(n) => {
            let parts = ["é", "ab", "語", "😀", "z"];
            let n = *n;
            b_call(|| {
                b.extend((0..n).map(|i| {
                    let _g = harness_scope();
                    tick(TICK_ITER);
                    parts[i % parts.len()]
                }))
            })
        }
        TOp::StrWriteFmt { n, in_macro } => {
            struct Piecewise(u32);
            impl std::fmt::Display for Piecewise {
                fn fmt(&self, f: &mut std::fmt::Formatter) -> std::fmt::Result {
                    f.write_str("語")?;
                    {
                        let _g = harness_scope();
                        tick(TICK_CLOSURE);
                    }
                    f.write_str("é")?;
                    write!(f, "{}", self.0)
                }
            }
            let n = (*n).min(4);
            if *in_macro {
                b_call(|| match n {
                    0 => bumpalo::format!(in bump, "x{}", 1),
                    1 => bumpalo::format!(in bump, "{}😀", Piecewise(1)),
                    2 => bumpalo::format!(in bump, "{}-{:>7}", Piecewise(1), Piecewise(2)),
                    _ => bumpalo::format!(in bump, "{}{}{}", Piecewise(1), Piecewise(2), Piecewise(3)),
                })
                .map(|x| {
                    second = Some(x);
                })
            } else {
                use std::fmt::Write;
                b_call(|| {
                    let _ = match n {
                        0 => write!(b, "x"),
                        1 => write!(b, "{}😀", Piecewise(1)),
                        2 => write!(b, "{}-{:>7}", Piecewise(1), Piecewise(2)),
                        _ => write!(b, "{}{}{}", Piecewise(1), Piecewise(2), Piecewise(3)),
                    };
                })
            }
        }
        TOp::StrCollectIn(n) => {
            let parts = ['é', 'a', '語', '😀', 'z'];
            let n = *n;
            let chars = (0..n).map(|i| {
                let _g = harness_scope();
                tick(TICK_ITER);
                parts[i % parts.len()]
            });
            if n % 2 == 0 {
                b_call(|| chars.collect_in::<BString>(bump)).map(|x| {
                    second = Some(x);
                })
            } else {
                b_call(|| BString::from_iter_in(chars, bump)).map(|x| {
                    second = Some(x);
                })
            }
        }
        _ => unreachable!(),
    };
    let (count, fired) = track::disarm();
    if r.is_err() {
        stats.hit("w3_panic_propagated");
    }
    for (which, x) in [("target", Some(&b)), ("result", second.as_ref())] {
        if let Some(x) = x {
            if let Err(e) = std::str::from_utf8(x.as_bytes()) {
                let n = ck.name.clone();
                ck.violate("invalid-utf8", &n, format!("{} string holds {:?}: {}", which, &x.as_bytes()[..x.len().min(16)], e));
            }
        }
    }
    if ck.viol.is_empty() && s.follow == Follow::Continue {
        let r = b_call(|| {
            b.push('é');
            b.push_str("ok");
            let _ = b.pop();
            b.len()
        });
        if r.is_err() {
            ck.violate("container-unusable", "", "push/pop after the panic panicked".into());
        } else if std::str::from_utf8(b.as_bytes()).is_err() {
            let n = ck.name.clone();
            ck.violate("invalid-utf8", &n, "after continuing to use the string".into());
        }
    }
    let _ = b_call(move || {
        drop(b);
        drop(second);
    });
    (count, fired)
}

pub fn exec_w3(s: &W3Script) -> W3Report {
    simalloc::begin_run(s.placement);
    track::reset_ledger();
    crate::w2_ops::set_spare(if s.elem == VT::Zt { 0 } else { s.spare });
    INNER_ON.with(|c| c.set(s.inner_alloc));
    INNER.with(|v| v.borrow_mut().clear());
    let name = crate::w2::op_name(&s.target);
    let mut ck = Ck { viol: Vec::new(), name };
    let mut stats = Stats::default();
    let b = match simalloc::arena_call(0, Bump::new) {
        Ok(b) => b,
        Err(_) => {
            simalloc::end_run();
            return W3Report {
                violations: Vec::new(),
                stats,
                fp: 0,
                callbacks: 0,
                fired: false,
            };
        }
    };
    let ptr: *mut Bump = Box::into_raw(Box::new(b));
    let bump: &'static Bump = unsafe { &*ptr };
    let is_str = matches!(
        s.target,
        TOp::StrRetain(_) | TOp::StrExtend(_) | TOp::StrFromIter(_) | TOp::StrExtendStrs(_) | TOp::StrWriteFmt { .. } | TOp::StrCollectIn(_)
    );
    let (count, fired) = if is_str {
        run_str(s, bump, &mut ck, &mut stats)
    } else {
        match s.elem {
            VT::Big => run_vec::<Big<0>>(s, bump, &mut ck, &mut stats),
            VT::Wide => run_vec::<crate::track::Wide<0>>(s, bump, &mut ck, &mut stats),
            VT::Zt => run_vec::<Zt<0>>(s, bump, &mut ck, &mut stats),
            _ => run_vec::<Tr<0>>(s, bump, &mut ck, &mut stats),
        }
    };
    stats.steps += 1;
    if fired {
        stats.hit("w3_injected_panic_fired");
    }
    let mut ev = Vec::new();
    simalloc::take_events(&mut ev);
    for e in &ev {
        if let simalloc::Event::Free { .. } = e {
            ck.violate("chunk-freed-during-unwinding", "", String::new());
        }
        if let simalloc::Event::Anomaly { kind, .. } = e {
            ck.violate("allocator-anomaly", &format!("{:?}", kind), String::new());
        }
    }
    if ck.viol.is_empty() {
        let owned = unsafe { Box::from_raw(ptr) };
        let _ = simalloc::arena_call(0, move || drop(owned));
    }
    let mut ev = Vec::new();
    simalloc::take_events(&mut ev);
    let end = simalloc::end_run();
    if ck.viol.is_empty() && end.write_after_free > 0 {
        ck.violate("write-after-free", "", String::new());
    }
    let mut fp = Fp::new();
    fp.mix(crate::rng::fnv(&format!("{:?}", s.target)));
    fp.mix(s.panic_at ^ (s.mask << 20) ^ ((s.pre.len() as u64) << 40));
    fp.mix(crate::rng::fnv(&format!("{:?}{:?}{:?}", s.elem, s.follow, s.pre)));
    W3Report {
        violations: ck.viol,
        stats,
        fp: fp.0,
        callbacks: count,
        fired,
    }
}

// ---- generation ----------------------------------------------------------------------------

use crate::rng::Rng;
use crate::track::{TICK_CLONE, TICK_DEFAULT, TICK_DROP, TICK_EQ};

pub fn gen_w3(seed: u64) -> W3Script {
    let mut r = Rng::new(seed).sub(5);
    let elem = *r.pick(&[VT::Tr, VT::Tr, VT::Tr, VT::Tr, VT::Big, VT::Big, VT::Zt, VT::Zt, VT::Wide]);
    let n_pre = match r.below(6) {
        // now and then a vector of several pages: size-dependent paths (bulk drops, moves of
        // whole pages) only exist above such thresholds
        _ if r.chance(1, 40) => 100 + r.usize_below(600),
        0 => 0,
        1 => 1,
        2 | 3 => 2 + r.usize_below(5),
        _ => r.usize_below(14),
    };
    // tags with runs of duplicates so that dedup has work to do
    let mut pre = Vec::new();
    let mut t = r.below(4) as u32;
    for _ in 0..n_pre {
        if r.chance(1, 2) {
            t = r.below(6) as u32;
        }
        pre.push(t);
    }
    let pre_text = crate::w2_gen::text(&mut r, 10);
    let small = |r: &mut Rng| -> usize { [0, 1, 2, 3, 5, 8, 17][r.usize_below(7)] };
    let pred = match r.below(5) {
        0 | 1 => Pred::Mod(2, r.below(2) as u32),
        2 => Pred::Mod(3, r.below(3) as u32),
        3 => Pred::Lt(r.below(6) as u32),
        _ => Pred::True,
    };
    let hint = *r.pick(&[HintKind::Exact, HintKind::Unknown, HintKind::Low]);
    let df_consume = match r.below(4) {
        0 | 1 => Consume::All,
        2 => Consume::Mixed(1 + r.below(2) as u8, 0),
        _ => Consume::DropNow,
    };
    let target = match r.below(42) {
        0..=2 => TOp::Retain(pred),
        3..=6 => TOp::DrainFilter(pred, df_consume),
        7 => TOp::Dedup,
        8 => TOp::DedupBy(*r.pick(&[Same::Eq, Same::Bucket(2), Same::Succ])),
        9 => TOp::DedupByKey(1 + r.below(3) as u32),
        10 | 11 => TOp::Resize(r.usize_below(20), r.below(6) as u32),
        12 | 13 => TOp::Extend { n: small(&mut r), hint },
        14 => TOp::ExtendFromSlice { n: small(&mut r) },
        15 => TOp::CloneVec,
        16 | 17 => TOp::Splice(crate::w2_gen::range(&mut r), small(&mut r), hint, crate::w2_gen::consume(&mut r)),
        18 => TOp::FromIterIn { n: small(&mut r), hint },
        19 => TOp::CollectIn { n: small(&mut r) },
        20 => TOp::MacroRepeat { n: small(&mut r) },
        21 => TOp::Truncate(r.usize_below(8)),
        22 => TOp::Clear,
        23 => TOp::DropVec,
        24 => TOp::IntoIterDrop(crate::w2_gen::consume(&mut r)),
        25 => TOp::DrainDrop(crate::w2_gen::range(&mut r), crate::w2_gen::consume(&mut r)),
        26 => TOp::SetIndex(r.usize_below(6)),
        27 => TOp::Insert(r.usize_below(6)),
        28 => TOp::BoxedSliceDrop,
        29 => TOp::SliceFillWith { n: small(&mut r) },
        30 => TOp::SliceClone { n: small(&mut r) },
        31 => TOp::SliceFillIter { n: small(&mut r) },
        32 => {
            if r.chance(1, 2) {
                TOp::SliceFillDefault { n: small(&mut r) }
            } else {
                TOp::SliceFillClone { n: small(&mut r) }
            }
        }
        33 => {
            if r.chance(1, 2) {
                TOp::AllocWith
            } else {
                TOp::AllocTryWith { fail: r.chance(1, 2) }
            }
        }
        34 => {
            let n = small(&mut r);
            TOp::SliceTryFillWith { n, fail_at: if r.chance(1, 2) && n > 0 { Some(r.usize_below(n)) } else { None } }
        }
        35 | 36 => TOp::StrRetain(*r.pick(&[Pred::Lt(128), Pred::Mod(2, 0), Pred::Mod(2, 1), Pred::Lt(0x800), Pred::True])),
        37 => match r.below(4) {
            0 => TOp::StrExtend(crate::w2_gen::text(&mut r, 6)),
            1 => TOp::StrExtendStrs(r.usize_below(6)),
            2 => TOp::StrWriteFmt { n: r.usize_below(4), in_macro: r.chance(1, 2) },
            _ => TOp::StrCollectIn(r.usize_below(7)),
        },
        38 => TOp::StrFromIter(crate::w2_gen::text(&mut r, 6)),
        _ => match r.below(8) {
            0 => TOp::BoxDrop,
            1 => TOp::BoxArrayDrop,
            2 | 3 => TOp::BoxFromIterIn { n: small(&mut r), hint, collect: r.chance(1, 2) },
            4 => {
                let n = small(&mut r);
                TOp::CollectInResult { n, stop_at: if r.chance(1, 2) && n > 0 { Some(r.usize_below(n)) } else { None } }
            }
            5 => TOp::TryAllocWith,
            6 => TOp::TryAllocTryWith { fail: r.chance(1, 2) },
            _ => {
                let n = small(&mut r);
                TOp::SliceTryFillIter { n, fail_at: if r.chance(1, 2) && n > 0 { Some(r.usize_below(n)) } else { None } }
            }
        },
    };
    // which callback classes may panic in this case (swarm)
    let classes = [TICK_CLOSURE | TICK_ITER, TICK_CLONE, TICK_DROP, TICK_EQ, TICK_DEFAULT];
    let mut mask = 0;
    for c in classes {
        if r.chance(1, 2) {
            mask |= c;
        }
    }
    if mask == 0 {
        mask = TICK_CLOSURE | TICK_ITER | TICK_CLONE | TICK_DROP | TICK_EQ | TICK_DEFAULT;
    }
    W3Script {
        elem,
        pre,
        pre_text,
        spare: *r.pick(&[0usize, 0, 1, 4, 40]),
        target,
        mask,
        panic_at: 0,
        follow: if r.chance(1, 2) { Follow::DropNow } else { Follow::Continue },
        placement: Placement::Seeded(r.next()),
        inner_alloc: Rng::new(seed).sub(55).chance(1, 3),
    }
}
