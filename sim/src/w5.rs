//! W5: decoder differential (the pure-function clause of C14). This part is plain input
//! enumeration, not simulation: `from_utf8_lossy_in`, `from_utf8` and `from_utf16_in` are
//! compared with std on every byte string of length <= 3 (all 256 values), every string of
//! length 4..5 over a 24-byte alphabet of class representatives, and every u16 string of
//! length <= 3 over surrogate-class representatives. The space is cut into `of` chunks.

use crate::common::*;
use crate::simalloc;
use bumpalo::collections::{String as BString, Vec as BVec};
use bumpalo::Bump;
use serde::{Deserialize, Serialize};

#[derive(Clone, Debug, PartialEq, Serialize, Deserialize)]
pub struct W5Script {
    /// 0: bytes, length <= 3, all values; 1: bytes, length 4..5, alphabet; 2: u16, length <= 3, alphabet
    pub space: u8,
    pub chunk: u32,
    pub of: u32,
}

pub const ALPHABET: [u8; 24] = [
    0x00, 0x7F, 0x80, 0x8F, 0x90, 0x9F, 0xA0, 0xBF, 0xC0, 0xC1, 0xC2, 0xDF, 0xE0, 0xE1, 0xEC, 0xED, 0xEE, 0xEF, 0xF0, 0xF1, 0xF3, 0xF4, 0xF5, 0xFF,
];
pub const U16S: [u16; 12] = [0x0000, 0x0041, 0x00E9, 0x07FF, 0x0800, 0xD7FF, 0xD800, 0xDBFF, 0xDC00, 0xDFFF, 0xE000, 0xFFFF];

pub fn space_size(space: u8) -> u64 {
    match space {
        0 => 1 + 256 + 256 * 256 + 256 * 256 * 256,
        1 => 24u64.pow(4) + 24u64.pow(5),
        _ => 1 + 12 + 144 + 1728,
    }
}

fn nth_input(space: u8, mut k: u64, bytes: &mut Vec<u8>, units: &mut Vec<u16>) {
    bytes.clear();
    units.clear();
    match space {
        0 => {
            let mut len = 0;
            let mut block = 1u64;
            while k >= block {
                k -= block;
                block *= 256;
                len += 1;
            }
            for _ in 0..len {
                bytes.push((k % 256) as u8);
                k /= 256;
            }
        }
        1 => {
            let len = if k < 24u64.pow(4) {
                4
            } else {
                k -= 24u64.pow(4);
                5
            };
            for _ in 0..len {
                bytes.push(ALPHABET[(k % 24) as usize]);
                k /= 24;
            }
        }
        _ => {
            let mut len = 0;
            let mut block = 1u64;
            while k >= block {
                k -= block;
                block *= 12;
                len += 1;
            }
            for _ in 0..len {
                units.push(U16S[(k % 12) as usize]);
                k /= 12;
            }
        }
    }
}

pub fn exec_w5(s: &W5Script) -> crate::w67::WReport {
    simalloc::begin_run(simalloc::Placement::Fixed(0));
    let mut viol: Vec<Violation> = Vec::new();
    let mut stats = Stats::default();
    let total = space_size(s.space);
    let of = s.of.max(1) as u64;
    let mut bump = simalloc::arena_call(0, Bump::new).expect("arena");
    let mut bytes = Vec::new();
    let mut units = Vec::new();
    let mut k = s.chunk as u64 % of;
    let mut n = 0u64;
    while k < total && viol.is_empty() {
        nth_input(s.space, k, &mut bytes, &mut units);
        let r = simalloc::arena_call(0, || {
            let b = &bump;
            if s.space < 2 {
                let lossy = BString::from_utf8_lossy_in(&bytes, b);
                let want = String::from_utf8_lossy(&bytes);
                if lossy.as_str() != &*want {
                    return Some(("from_utf8_lossy_in", format!("{:02x?}: {:?} vs std {:?}", bytes, lossy.as_str(), want)));
                }
                let mut v = BVec::with_capacity_in(bytes.len(), b);
                v.extend_from_slice_copy(&bytes);
                let got = BString::from_utf8(v);
                let std = std::str::from_utf8(&bytes);
                match (got, std) {
                    (Ok(g), Ok(w)) => {
                        if g.as_str() != w {
                            return Some(("from_utf8", format!("{:02x?}: text differs", bytes)));
                        }
                    }
                    (Err(e), Err(w)) => {
                        let ue = e.utf8_error();
                        if ue.valid_up_to() != w.valid_up_to() || ue.error_len() != w.error_len() || e.as_bytes() != &bytes[..] {
                            return Some(("from_utf8", format!("{:02x?}: error {:?} vs std {:?}", bytes, ue, w)));
                        }
                    }
                    (g, w) => return Some(("from_utf8", format!("{:02x?}: accepted {} vs std {}", bytes, g.is_ok(), w.is_ok()))),
                }
            } else {
                let got = BString::from_utf16_in(&units, b);
                let want = String::from_utf16(&units);
                match (got, want) {
                    (Ok(g), Ok(w)) => {
                        if g.as_str() != w {
                            return Some(("from_utf16_in", format!("{:04x?}: {:?} vs std {:?}", units, g.as_str(), w)));
                        }
                    }
                    (Err(_), Err(_)) => {}
                    (g, w) => return Some(("from_utf16_in", format!("{:04x?}: accepted {} vs std {}", units, g.is_ok(), w.is_ok()))),
                }
            }
            None
        });
        match r {
            Ok(None) => {}
            Ok(Some((which, detail))) => viol.push(Violation {
                prop: "C14".into(),
                sig: format!("C14/decoder-differs-from-std/{}", which),
                op: which.into(),
                at: 0,
                detail,
            }),
            Err(p) => {
                let msg = panic_message(&p);
                viol.push(Violation {
                    prop: "C14".into(),
                    sig: "C14/decoder-panicked".into(),
                    op: "decoder".into(),
                    at: 0,
                    detail: format!("{:02x?} {:04x?}: {}", bytes, units, msg),
                });
            }
        }
        n += 1;
        if n % 256 == 0 {
            let _ = simalloc::arena_call(0, || bump.reset());
        }
        k += of;
    }
    stats.add("w5_decoder_inputs", n);
    stats.hit("w5_chunk");
    stats.steps += 1;
    stats.add("w2_mirrored_call", 2);
    let _ = simalloc::arena_call(0, move || drop(bump));
    let mut ev = Vec::new();
    simalloc::take_events(&mut ev);
    simalloc::end_run();
    let mut fp = Fp::new();
    fp.mix(((s.space as u64) << 40) ^ ((s.chunk as u64) << 8) ^ s.of as u64);
    crate::w67::WReport { violations: viol, stats, fp: fp.0 }
}
