//! W6 (boundary sizes, C19) and W7 (capacity and growth, C18).

use crate::common::*;
use crate::simalloc::{self, Entry, Event, Placement, Refusal, MACHINE_BYTES};
use crate::w2_vec::b_call;
use bumpalo::collections::{String as BString, Vec as BVec};
use bumpalo::Bump;
use serde::{Deserialize, Serialize};
use std::alloc::Layout;

#[derive(Clone, Copy, Debug, PartialEq, Eq, Serialize, Deserialize)]
pub enum ES {
    Z0,
    B1,
    B3,
    B8,
    B24,
    B4096,
    M1,
}
impl ES {
    pub fn size(&self) -> usize {
        match self {
            ES::Z0 => 0,
            ES::B1 => 1,
            ES::B3 => 3,
            ES::B8 => 8,
            ES::B24 => 24,
            ES::B4096 => 4096,
            ES::M1 => 1 << 20,
        }
    }
    pub fn align(&self) -> usize {
        match self {
            ES::B8 | ES::B24 => 8,
            _ => 1,
        }
    }
}
pub const ALL_ES: [ES; 7] = [ES::Z0, ES::B1, ES::B3, ES::B8, ES::B24, ES::B4096, ES::M1];

#[derive(Clone, Copy, Debug, PartialEq, Eq, Serialize, Deserialize)]
pub enum Entry6 {
    WithCapacity,
    AllocLayout { align_log2: u8 },
    FillWith,
    FillCopy,
    FillClone,
    FillDefault,
    FillIter,
    SliceCopyZst,
    TryFillWith,
    TryFillIter,
    VecWithCapacity,
    VecReserve,
    VecReserveExact,
    VecTryReserve,
    VecTryReserveExact,
    VecResize,
    VecExtendSlicesCopy,
    /// splice into the middle of a vector with a replacement iterator whose size_hint lower bound
    /// is `count` (it yields three items): the hint is an element count that must be refused
    VecSpliceHint,
    /// a vector of zero-sized elements whose length is within two of usize::MAX takes one to three
    /// more elements through one of the growing methods (chosen by `count`): the element count
    /// overflows, so the call must panic and the length must not wrap
    VecZstFull,
    StrWithCapacity,
    StrReserve,
    StrReserveExact,
}

#[derive(Clone, Copy, Debug, PartialEq, Eq, Serialize, Deserialize)]
pub enum State6 {
    Fresh,
    WithChunk,
    SmallLimit,
    /// a vector / string that already has elements
    NonEmpty,
}

#[derive(Clone, Debug, PartialEq, Serialize, Deserialize)]
pub struct W6Script {
    pub min_align: usize,
    pub entry: Entry6,
    pub fallible: bool,
    pub es: ES,
    pub count: usize,
    pub state: State6,
}

pub struct WReport {
    pub violations: Vec<Violation>,
    pub stats: Stats,
    pub fp: u64,
}

struct Ck {
    viol: Vec<Violation>,
    name: String,
}
impl Ck {
    fn violate(&mut self, prop: &str, oracle: &str, facts: &str, detail: String) {
        let sig = if facts.is_empty() { format!("{}/{}", prop, oracle) } else { format!("{}/{}/{}", prop, oracle, facts) };
        self.viol.push(Violation {
            prop: prop.into(),
            sig,
            op: self.name.clone(),
            at: 0,
            detail,
        });
    }
}

#[derive(Debug, PartialEq)]
enum Got {
    /// claimed extent in bytes starting at addr
    Ok { addr: usize, bytes: Option<usize> },
    Err,
    Panic(PanicClass, String),
}

#[derive(Clone, Copy)]
#[repr(C)]
struct Pad<const N: usize>([u8; N]);
impl<const N: usize> Default for Pad<N> {
    fn default() -> Self {
        Pad([0; N])
    }
}
#[derive(Clone, Copy, Default)]
#[repr(C)]
struct P8(u64);
#[derive(Clone, Copy, Default)]
#[repr(C)]
struct P24([u64; 3]);

struct HugeIter<T> {
    n: usize,
    _p: std::marker::PhantomData<T>,
}
impl<T: Default> Iterator for HugeIter<T> {
    type Item = T;
    fn next(&mut self) -> Option<T> {
        if self.n == 0 {
            None
        } else {
            self.n -= 1;
            Some(T::default())
        }
    }
    fn size_hint(&self) -> (usize, Option<usize>) {
        (self.n, Some(self.n))
    }
}
impl<T: Default> ExactSizeIterator for HugeIter<T> {}

fn call6<R>(arena: u32, f: impl FnOnce() -> R) -> Result<R, (PanicClass, String)> {
    simalloc::arena_call(arena, f).map_err(|p| {
        let msg = panic_message(&p);
        {
            let _g = simalloc::harness_scope();
            drop(p);
        }
        (classify_panic(&msg), msg)
    })
}

fn slice_entry<T: Copy + Default + 'static, const M: usize>(b: &Bump<M>, s: &W6Script) -> Got {
    let n = s.count;
    let conv = |r: Result<Result<(usize, usize), ()>, (PanicClass, String)>| match r {
        Ok(Ok((addr, len))) => Got::Ok {
            addr,
            bytes: len.checked_mul(std::mem::size_of::<T>()),
        },
        Ok(Err(())) => Got::Err,
        Err((c, m)) => Got::Panic(c, m),
    };
    let v = T::default();
    // never actually initialise absurd numbers of elements: if the reservation succeeds for a
    // huge zero-sized count the fill loop would not terminate, so those use the copy entry only
    let small_enough = n <= (32 << 20);
    match (s.entry, s.fallible) {
        (Entry6::FillWith, false) if small_enough => conv(call6(0, || {
            let r = b.alloc_slice_fill_with(n, |_| v);
            Ok((r.as_ptr() as usize, r.len()))
        })),
        (Entry6::FillWith, true) if small_enough => conv(call6(0, || {
            b.try_alloc_slice_fill_with(n, |_| v).map(|r| (r.as_ptr() as usize, r.len())).map_err(|_| ())
        })),
        (Entry6::FillCopy, false) if small_enough => conv(call6(0, || {
            let r = b.alloc_slice_fill_copy(n, v);
            Ok((r.as_ptr() as usize, r.len()))
        })),
        (Entry6::FillCopy, true) if small_enough => conv(call6(0, || {
            b.try_alloc_slice_fill_copy(n, v).map(|r| (r.as_ptr() as usize, r.len())).map_err(|_| ())
        })),
        (Entry6::FillClone, false) if small_enough => conv(call6(0, || {
            let r = b.alloc_slice_fill_clone(n, &v);
            Ok((r.as_ptr() as usize, r.len()))
        })),
        (Entry6::FillClone, true) if small_enough => conv(call6(0, || {
            b.try_alloc_slice_fill_clone(n, &v).map(|r| (r.as_ptr() as usize, r.len())).map_err(|_| ())
        })),
        (Entry6::FillDefault, false) if small_enough => conv(call6(0, || {
            let r = b.alloc_slice_fill_default::<T>(n);
            Ok((r.as_ptr() as usize, r.len()))
        })),
        (Entry6::FillDefault, true) if small_enough => conv(call6(0, || {
            b.try_alloc_slice_fill_default::<T>(n).map(|r| (r.as_ptr() as usize, r.len())).map_err(|_| ())
        })),
        (Entry6::FillIter, false) if small_enough => conv(call6(0, || {
            let r = b.alloc_slice_fill_iter(HugeIter::<T> { n, _p: std::marker::PhantomData });
            Ok((r.as_ptr() as usize, r.len()))
        })),
        (Entry6::FillIter, true) if small_enough => conv(call6(0, || {
            b.try_alloc_slice_fill_iter(HugeIter::<T> { n, _p: std::marker::PhantomData })
                .map(|r| (r.as_ptr() as usize, r.len()))
                .map_err(|_| ())
        })),
        (Entry6::TryFillWith, _) if small_enough => conv(call6(0, || {
            b.alloc_slice_try_fill_with::<T, _, ()>(n, |_| Ok(v)).map(|r| (r.as_ptr() as usize, r.len())).map_err(|_| ())
        })),
        (Entry6::TryFillIter, _) if small_enough => conv(call6(0, || {
            b.alloc_slice_try_fill_iter::<T, _, ()>(HugeIter::<T> { n, _p: std::marker::PhantomData }.map(Ok))
                .map(|r| (r.as_ptr() as usize, r.len()))
                .map_err(|_| ())
        })),
        // huge counts. Entry points with a callback get one that stops the fill at its first call
        // (so a wrongly accepted count neither loops for ever nor writes anything); the others are
        // called as they are when the element size is not zero (a correct crate refuses before
        // writing; a zero-sized fill of 2^60 elements would be legal and endless, so not those)
        (Entry6::FillWith, fallible) | (Entry6::TryFillWith, fallible) | (Entry6::FillIter, fallible) | (Entry6::TryFillIter, fallible) => {
            let ran = std::cell::Cell::new(false);
            let stop = || -> T {
                let _g = simalloc::harness_scope();
                ran.set(true);
                std::panic::resume_unwind(Box::new("<injected>"))
            };
            struct Stopper<'a, T, F: Fn() -> T>(usize, &'a F);
            impl<'a, T, F: Fn() -> T> Iterator for Stopper<'a, T, F> {
                type Item = T;
                fn next(&mut self) -> Option<T> {
                    Some((self.1)())
                }
                fn size_hint(&self) -> (usize, Option<usize>) {
                    (self.0, Some(self.0))
                }
            }
            impl<'a, T, F: Fn() -> T> ExactSizeIterator for Stopper<'a, T, F> {}
            let r = call6(0, || match (s.entry, fallible) {
                (Entry6::FillWith, false) => {
                    let r = b.alloc_slice_fill_with(n, |_| stop());
                    Ok((r.as_ptr() as usize, r.len()))
                }
                (Entry6::FillWith, true) => b.try_alloc_slice_fill_with(n, |_| stop()).map(|r| (r.as_ptr() as usize, r.len())).map_err(|_| ()),
                (Entry6::FillIter, false) => {
                    let r = b.alloc_slice_fill_iter(Stopper(n, &stop));
                    Ok((r.as_ptr() as usize, r.len()))
                }
                (Entry6::FillIter, true) => b.try_alloc_slice_fill_iter(Stopper(n, &stop)).map(|r| (r.as_ptr() as usize, r.len())).map_err(|_| ()),
                (Entry6::TryFillWith, _) => b.alloc_slice_try_fill_with::<T, _, ()>(n, |_| Ok(stop())).map(|r| (r.as_ptr() as usize, r.len())).map_err(|_| ()),
                _ => b
                    .alloc_slice_try_fill_iter::<T, _, ()>(Stopper(n, &stop).map(Ok::<T, ()>))
                    .map(|r| (r.as_ptr() as usize, r.len()))
                    .map_err(|_| ()),
            });
            if ran.get() {
                let impossible = std::mem::size_of::<T>().checked_mul(n).map(|t| t > isize::MAX as usize - 4096 || t > MACHINE_BYTES).unwrap_or(true);
                if impossible {
                    Got::Panic(PanicClass::Other, format!("CAPACITY-SHORT the initialiser was run for {} elements of {} bytes", n, std::mem::size_of::<T>()))
                } else {
                    Got::Err
                }
            } else {
                conv(r)
            }
        }
        (Entry6::FillCopy, false) if std::mem::size_of::<T>() > 0 => conv(call6(0, || {
            let r = b.alloc_slice_fill_copy(n, v);
            Ok((r.as_ptr() as usize, r.len()))
        })),
        (Entry6::FillCopy, true) if std::mem::size_of::<T>() > 0 => conv(call6(0, || {
            b.try_alloc_slice_fill_copy(n, v).map(|r| (r.as_ptr() as usize, r.len())).map_err(|_| ())
        })),
        (Entry6::FillClone, false) if std::mem::size_of::<T>() > 0 => conv(call6(0, || {
            let r = b.alloc_slice_fill_clone(n, &v);
            Ok((r.as_ptr() as usize, r.len()))
        })),
        (Entry6::FillClone, true) if std::mem::size_of::<T>() > 0 => conv(call6(0, || {
            b.try_alloc_slice_fill_clone(n, &v).map(|r| (r.as_ptr() as usize, r.len())).map_err(|_| ())
        })),
        (Entry6::FillDefault, false) if std::mem::size_of::<T>() > 0 => conv(call6(0, || {
            let r = b.alloc_slice_fill_default::<T>(n);
            Ok((r.as_ptr() as usize, r.len()))
        })),
        (Entry6::FillDefault, true) if std::mem::size_of::<T>() > 0 => conv(call6(0, || {
            b.try_alloc_slice_fill_default::<T>(n).map(|r| (r.as_ptr() as usize, r.len())).map_err(|_| ())
        })),
        (Entry6::SliceCopyZst, fallible) if std::mem::size_of::<T>() == 0 => {
            let src: &[T] = unsafe { std::slice::from_raw_parts(std::ptr::NonNull::<T>::dangling().as_ptr(), n) };
            if fallible {
                conv(call6(0, || b.try_alloc_slice_copy(src).map(|r| (r.as_ptr() as usize, r.len())).map_err(|_| ())))
            } else {
                conv(call6(0, || {
                    let r = b.alloc_slice_copy(src);
                    Ok((r.as_ptr() as usize, r.len()))
                }))
            }
        }
        _ => Got::Err, // combination not applicable: treated as skipped by the caller
    }
}

fn vec_entry<T: Copy + Default + 'static>(b: &'static Bump, s: &W6Script) -> Got {
    let n = s.count;
    let esz = std::mem::size_of::<T>();
    let mut v: BVec<'static, T> = BVec::new_in(b);
    if s.state == State6::NonEmpty {
        let _ = call6(0, || {
            v.push(T::default());
            v.push(T::default());
        });
    }
    // a vector of zero-sized elements can really be usize::MAX - 1 long: the element *count* is
    // then what a reservation can overflow
    let zst_near_max = esz == 0
        && s.state == State6::NonEmpty
        && matches!(s.entry, Entry6::VecReserve | Entry6::VecReserveExact | Entry6::VecTryReserve | Entry6::VecTryReserveExact);
    if zst_near_max {
        unsafe { v.set_len(usize::MAX - 1) };
    }
    let cap_start = v.capacity();
    let conv_v = |r: Result<Option<()>, (PanicClass, String)>, v: &BVec<'static, T>| match r {
        Ok(Some(())) if zst_near_max && n >= 2 => Got::Panic(
            PanicClass::Other,
            format!("CAPACITY-SHORT a vector of usize::MAX - 1 zero-sized elements accepted a reservation for {} more", n),
        ),
        Ok(Some(())) => Got::Ok {
            addr: v.as_ptr() as usize,
            bytes: if esz == 0 { Some(0) } else { v.capacity().checked_mul(esz) },
        },
        // a refused reservation must not leave a capacity that claims the refused memory
        Ok(None) if esz > 0 && v.capacity() != cap_start => {
            Got::Panic(PanicClass::Other, format!("CAPACITY-SHORT refused reservation left capacity {} (was {})", v.capacity(), cap_start))
        }
        Ok(None) => Got::Err,
        Err((c, m)) => Got::Panic(c, m),
    };
    let got = match s.entry {
        Entry6::VecWithCapacity => match call6(0, || BVec::<T>::with_capacity_in(n, b)) {
            Ok(nv) => {
                let g = Got::Ok {
                    addr: nv.as_ptr() as usize,
                    bytes: if esz == 0 { Some(0) } else { nv.capacity().checked_mul(esz) },
                };
                if esz > 0 && nv.capacity() < n {
                    return Got::Panic(PanicClass::Other, format!("CAPACITY-SHORT {} < {}", nv.capacity(), n));
                }
                std::mem::forget(nv);
                g
            }
            Err((c, m)) => Got::Panic(c, m),
        },
        Entry6::VecReserve => {
            let r = call6(0, || v.reserve(n)).map(Some);
            conv_v(r, &v)
        }
        Entry6::VecReserveExact => {
            let r = call6(0, || v.reserve_exact(n)).map(Some);
            conv_v(r, &v)
        }
        Entry6::VecTryReserve => {
            let r = call6(0, || v.try_reserve(n).ok());
            conv_v(r, &v)
        }
        Entry6::VecTryReserveExact => {
            let r = call6(0, || v.try_reserve_exact(n).ok());
            conv_v(r, &v)
        }
        Entry6::VecResize => {
            if esz == 0 && n > 1_000_000 {
                return Got::Err;
            }
            let r = call6(0, || v.resize(n, T::default())).map(Some);
            conv_v(r, &v)
        }
        Entry6::VecZstFull => {
            if esz != 0 {
                std::mem::forget(v);
                return Got::Err;
            }
            // how the vector came to be: the raw capacity field of a zero-sized vector is
            // whatever the constructor or the last shrink left there
            let _ = call6(0, || match (n / 72) % 4 {
                0 => {}
                1 => v = BVec::with_capacity_in(8, b),
                2 => {
                    for _ in 0..8 {
                        v.push(T::default());
                    }
                    v.shrink_to_fit();
                }
                _ => {
                    v.extend((0..8).map(|_| T::default()));
                    v.shrink_to_fit();
                    for _ in 0..12 {
                        v.push(T::default());
                    }
                }
            });
            if (n / 288) % 2 == 1 {
                // an ordinary length; the count asked for is what overflows
                let _ = call6(0, || {
                    while v.len() < 3 {
                        v.push(T::default());
                    }
                });
                let len0 = v.len();
                if len0 < 3 {
                    std::mem::forget(v);
                    return Got::Err;
                }
                // len0 + count = usize::MAX + 1 + (0..2): does not fit, and count itself does
                let count = usize::MAX - len0 + 1 + n % 3;
                let how = (n / 9) % 5;
                let r = call6(0, || match how {
                    0 => {
                        v.reserve(count);
                        true
                    }
                    1 => {
                        v.reserve_exact(count);
                        true
                    }
                    2 => v.try_reserve(count).is_ok(),
                    3 => v.try_reserve_exact(count).is_ok(),
                    _ => {
                        let src: &[T] = unsafe { std::slice::from_raw_parts(std::ptr::NonNull::<T>::dangling().as_ptr(), count) };
                        v.extend_from_slice_copy(src);
                        true
                    }
                });
                let len1 = v.len();
                std::mem::forget(v);
                return match r {
                    Ok(true) => Got::Panic(
                        PanicClass::Other,
                        format!("CAPACITY-SHORT a vector of {} zero-sized elements accepted {} more (method {}, history {}); its length is now {}", len0, count, how, (n / 72) % 4, len1),
                    ),
                    Ok(false) => Got::Err,
                    Err((_, m)) if how == 2 || how == 3 => Got::Panic(PanicClass::Other, format!("CAPACITY-SHORT (a fallible reservation panicked instead of returning Err) {}", m)),
                    Err(_) => Got::Err,
                };
            }
            let len0 = usize::MAX - (n % 3);
            let extra = 1 + (n / 3) % 3;
            let how = (n / 9) % 8;
            unsafe { v.set_len(len0) };
            let r = call6(0, || match how {
                0 => {
                    for _ in 0..extra {
                        v.push(T::default());
                    }
                }
                1 => {
                    for _ in 0..extra {
                        v.insert(0, T::default());
                    }
                }
                2 => v.extend((0..extra).map(|_| T::default())),
                3 => v.extend_from_slice_copy(&[T::default(); 3][..extra]),
                4 => v.extend_from_slice(&[T::default(); 3][..extra]),
                5 => {
                    let mut o: BVec<'static, T> = BVec::new_in(b);
                    for _ in 0..extra {
                        o.push(T::default());
                    }
                    v.append(&mut o);
                    std::mem::forget(o);
                }
                6 => v.extend_from_slices_copy(&[&[T::default(); 3][..extra], &[]]),
                _ => {
                    for _ in 0..extra {
                        v.reserve(1);
                        let l = v.len();
                        unsafe { v.set_len(l.wrapping_add(1)) };
                    }
                }
            });
            let len1 = v.len();
            std::mem::forget(v);
            let overflows = len0.checked_add(extra).is_none();
            return match r {
                Ok(()) if overflows || len1 < len0 => Got::Panic(
                    PanicClass::Other,
                    format!("CAPACITY-SHORT a vector of usize::MAX - {} zero-sized elements accepted {} more (method {}); its length is now {}", usize::MAX - len0, extra, how, len1),
                ),
                Err(_) if len1 < len0 => Got::Panic(
                    PanicClass::Other,
                    format!("CAPACITY-SHORT a vector of usize::MAX - {} zero-sized elements refused {} more (method {}) but its length wrapped to {}", usize::MAX - len0, extra, how, len1),
                ),
                Ok(()) => Got::Ok { addr: 0, bytes: Some(0) },
                // a panic of any kind is what C19 asks of an infallible method here
                Err(_) => Got::Err,
            };
        }
        Entry6::VecSpliceHint => {
            struct Hinted<T> {
                left: usize,
                hint: usize,
                _p: std::marker::PhantomData<T>,
            }
            impl<T: Default> Iterator for Hinted<T> {
                type Item = T;
                fn next(&mut self) -> Option<T> {
                    if self.left == 0 {
                        None
                    } else {
                        self.left -= 1;
                        Some(T::default())
                    }
                }
                fn size_hint(&self) -> (usize, Option<usize>) {
                    (self.hint, None)
                }
            }
            let _ = call6(0, || {
                for _ in 0..5 {
                    v.push(T::default());
                }
            });
            if v.len() < 5 {
                // the pre-state could not be built (limit / machine size): nothing to judge
                std::mem::forget(v);
                return Got::Err;
            }
            let r = call6(0, || {
                let sp = v.splice(1..2, Hinted::<T> { left: 3, hint: n, _p: std::marker::PhantomData });
                drop(sp);
            })
            .map(Some);
            if r.is_ok() && v.len() > v.capacity() {
                return Got::Panic(PanicClass::Other, format!("CAPACITY-SHORT after splice the vector claims {} elements in a buffer of {}", v.len(), v.capacity()));
            }
            conv_v(r, &v)
        }
        Entry6::VecExtendSlicesCopy => {
            // k slices whose lengths sum to `count` (possibly overflowing when zero-sized)
            if esz != 0 && n.checked_mul(esz).map(|b| b > (8 << 20)).unwrap_or(true) {
                return Got::Err;
            }
            if esz == 0 && n.checked_mul(3).is_none() {
                // the element *count* overflows while no memory is involved: no statement of
                // C19 covers it; not judged
                return Got::Err;
            }
            let part: &[T] = if esz == 0 {
                unsafe { std::slice::from_raw_parts(std::ptr::NonNull::<T>::dangling().as_ptr(), n) }
            } else {
                &[]
            };
            let owned: Vec<T> = if esz == 0 { Vec::new() } else { vec![T::default(); n] };
            let slices: [&[T]; 3] = if esz == 0 { [part, part, part] } else { [&owned, &owned[..n / 2], &[]] };
            let r = call6(0, || v.extend_from_slices_copy(&slices)).map(Some);
            conv_v(r, &v)
        }
        _ => Got::Err,
    };
    if let Got::Ok { .. } = got {
        if esz > 0 && matches!(s.entry, Entry6::VecReserve | Entry6::VecReserveExact | Entry6::VecTryReserve | Entry6::VecTryReserveExact) {
            if let Some(need) = v.len().checked_add(n) {
                if v.capacity() < need {
                    return Got::Panic(PanicClass::Other, format!("CAPACITY-SHORT {} < {}", v.capacity(), need));
                }
            }
        }
    }
    std::mem::forget(v);
    got
}

fn run6<const M: usize>(s: &W6Script, ck: &mut Ck, stats: &mut Stats) {
    let b = match simalloc::arena_call(0, || match s.state {
        State6::WithChunk | State6::NonEmpty => Bump::<M>::with_min_align_and_capacity(1000),
        _ => Bump::<M>::with_min_align(),
    }) {
        Ok(b) => b,
        Err(_) => return,
    };
    if s.state == State6::SmallLimit {
        b.set_allocation_limit(Some(100));
    }
    let esz = s.es.size();
    let n = s.count;
    let got: Got = match s.entry {
        Entry6::WithCapacity => {
            let r = if s.fallible {
                call6(1, || Bump::<M>::try_with_min_align_and_capacity(n).map_err(|_| ()))
            } else {
                call6(1, || Ok(Bump::<M>::with_min_align_and_capacity(n)))
            };
            match r {
                Ok(Ok(nb)) => {
                    let cc = nb.chunk_capacity();
                    let mut held = Vec::new();
                    simalloc::held(1, &mut held);
                    let total: usize = held.iter().map(|e| e.size).sum();
                    let g = if n > 0 && (cc < n || cc > total) {
                        Got::Panic(PanicClass::Other, format!("CAPACITY-SHORT chunk_capacity {} for {} (held {})", cc, n, total))
                    } else {
                        Got::Ok { addr: 0, bytes: Some(0) }
                    };
                    let _ = simalloc::arena_call(1, move || drop(nb));
                    g
                }
                Ok(Err(())) => Got::Err,
                Err((c, m)) => Got::Panic(c, m),
            }
        }
        Entry6::AllocLayout { align_log2 } => {
            let align = 1usize << align_log2.min(63);
            match Layout::from_size_align(n, align) {
                Err(_) => {
                    stats.hit("w6_invalid_layout_skipped");
                    let _ = simalloc::arena_call(0, move || drop(b));
                    return;
                }
                Ok(l) => {
                    let r = if s.fallible {
                        call6(0, || b.try_alloc_layout(l).map(|p| p.as_ptr() as usize).map_err(|_| ()))
                    } else {
                        call6(0, || Ok(b.alloc_layout(l).as_ptr() as usize))
                    };
                    match r {
                        Ok(Ok(a)) => {
                            if a % align != 0 {
                                ck.violate("C04", "misaligned-for-request", "boundary", format!("align 2^{}", align_log2));
                            }
                            Got::Ok { addr: a, bytes: Some(n) }
                        }
                        Ok(Err(())) => Got::Err,
                        Err((c, m)) => Got::Panic(c, m),
                    }
                }
            }
        }
        Entry6::FillWith | Entry6::FillCopy | Entry6::FillClone | Entry6::FillDefault | Entry6::FillIter | Entry6::SliceCopyZst | Entry6::TryFillWith | Entry6::TryFillIter => {
            match s.es {
                ES::Z0 => slice_entry::<(), M>(&b, s),
                ES::B1 => slice_entry::<u8, M>(&b, s),
                ES::B3 => slice_entry::<Pad<3>, M>(&b, s),
                ES::B8 => slice_entry::<P8, M>(&b, s),
                ES::B24 => slice_entry::<P24, M>(&b, s),
                ES::B4096 => slice_entry::<Pad<4096>, M>(&b, s),
                ES::M1 => slice_entry::<Pad<1048576>, M>(&b, s),
            }
        }
        _ => unreachable!(),
    };
    judge(s, got, esz, n, ck, stats);
    let _ = simalloc::arena_call(0, move || drop(b));
}

fn judge(s: &W6Script, got: Got, esz: usize, n: usize, ck: &mut Ck, stats: &mut Stats) {
    let total = esz.checked_mul(n);
    // what cannot be represented or cannot be satisfied on the simulated machine
    let impossible = match total {
        None => true,
        Some(t) => t > isize::MAX as usize - 4096 || t > MACHINE_BYTES,
    };
    let mut held: Vec<Entry> = Vec::new();
    simalloc::held(0, &mut held);
    stats.hit("w6_judged");
    if impossible {
        stats.hit("w6_impossible_request");
    }
    match got {
        Got::Ok { addr, bytes } => {
            stats.hit("w6_ok");
            // a size_hint is advice, not a request: an implementation may ignore an absurd hint
            if impossible && s.entry != Entry6::VecSpliceHint {
                ck.violate(
                    "C19",
                    "impossible-size-accepted",
                    &ck.name.clone(),
                    format!("element size {} x count {}: the call claimed success", esz, n),
                );
                return;
            }
            match bytes {
                None => ck.violate("C19", "claimed-extent-overflows", &ck.name.clone(), format!("esize {} count {}", esz, n)),
                Some(0) => {}
                Some(bts) => {
                    let inside = held.iter().any(|e| addr >= e.user && addr.checked_add(bts).map(|end| end <= e.user + e.size).unwrap_or(false));
                    if !inside {
                        ck.violate(
                            "C19",
                            "claims-more-than-reserved",
                            &ck.name.clone(),
                            format!("claims {} bytes, not inside any held chunk ({} held)", bts, held.len()),
                        );
                    }
                }
            }
        }
        Got::Err => {
            stats.hit("w6_err");
            if !s.fallible && !matches!(s.entry, Entry6::VecTryReserve | Entry6::VecTryReserveExact | Entry6::TryFillWith | Entry6::TryFillIter) {
                // not applicable combination (skipped)
                stats.hit("w6_skipped");
            }
        }
        Got::Panic(PanicClass::Other, m) if m.starts_with("CAPACITY-SHORT") => {
            ck.violate("C19", "capacity-claim-short", &ck.name.clone(), m);
        }
        Got::Panic(class, m) => {
            stats.hit("w6_panicked");
            let has_try_variant = matches!(
                s.entry,
                Entry6::WithCapacity | Entry6::AllocLayout { .. } | Entry6::FillWith | Entry6::FillCopy | Entry6::FillClone | Entry6::FillDefault | Entry6::FillIter | Entry6::SliceCopyZst
            );
            let is_try = (s.fallible && has_try_variant) || matches!(s.entry, Entry6::VecTryReserve | Entry6::VecTryReserveExact);
            if is_try {
                let slug = msg_slug(&m);
                ck.violate("C19", "fallible-method-panicked", &slug, m.clone());
                ck.violate("C09", "try-method-panicked", &slug, m);
            } else if class == PanicClass::Other && !impossible {
                // an ordinary-size request must not trip internal assertions
                ck.violate("C19", "internal-panic-on-possible-size", &msg_slug(&m), m);
            }
        }
    }
}

pub fn exec_w6(s: &W6Script) -> WReport {
    simalloc::begin_run(Placement::Seeded(s.count as u64 ^ 0x6666));
    crate::track::reset_ledger();
    let name = crate::w2::op_name(&s.entry);
    let mut ck = Ck { viol: Vec::new(), name };
    let mut stats = Stats::default();
    stats.steps += 1;
    let is_vec = matches!(
        s.entry,
        Entry6::VecWithCapacity
            | Entry6::VecReserve
            | Entry6::VecReserveExact
            | Entry6::VecTryReserve
            | Entry6::VecTryReserveExact
            | Entry6::VecResize
            | Entry6::VecExtendSlicesCopy
            | Entry6::VecSpliceHint
            | Entry6::VecZstFull
    );
    let is_str = matches!(s.entry, Entry6::StrWithCapacity | Entry6::StrReserve | Entry6::StrReserveExact);
    if is_vec || is_str {
        let b = simalloc::arena_call(0, || match s.state {
            State6::WithChunk | State6::NonEmpty => Bump::with_capacity(1000),
            _ => Bump::new(),
        });
        if let Ok(b) = b {
            let ptr: *mut Bump = Box::into_raw(Box::new(b));
            let bump: &'static Bump = unsafe { &*ptr };
            if s.state == State6::SmallLimit {
                bump.set_allocation_limit(Some(100));
            }
            let (got, esz) = if is_str {
                let n = s.count;
                let mut st = BString::new_in(bump);
                if s.state == State6::NonEmpty {
                    let _ = call6(0, || st.push_str("héllo"));
                }
                let r = match s.entry {
                    Entry6::StrWithCapacity => call6(0, || {
                        let x = BString::with_capacity_in(n, bump);
                        let r = (x.as_ptr() as usize, x.capacity());
                        std::mem::forget(x);
                        r
                    }),
                    Entry6::StrReserve => call6(0, || {
                        st.reserve(n);
                        (st.as_ptr() as usize, st.capacity())
                    }),
                    _ => call6(0, || {
                        st.reserve_exact(n);
                        (st.as_ptr() as usize, st.capacity())
                    }),
                };
                let need = if s.entry == Entry6::StrWithCapacity { Some(n) } else { st.len().checked_add(n) };
                std::mem::forget(st);
                (
                    match r {
                        Ok((addr, cap)) => {
                            if need.map(|x| cap < x).unwrap_or(true) {
                                Got::Panic(PanicClass::Other, format!("CAPACITY-SHORT {} < {:?}", cap, need))
                            } else {
                                Got::Ok { addr, bytes: Some(cap) }
                            }
                        }
                        Err((c, m)) => Got::Panic(c, m),
                    },
                    1,
                )
            } else {
                (
                    match s.es {
                        ES::Z0 => vec_entry::<()>(bump, s),
                        ES::B1 => vec_entry::<u8>(bump, s),
                        ES::B3 => vec_entry::<Pad<3>>(bump, s),
                        ES::B8 => vec_entry::<P8>(bump, s),
                        ES::B24 => vec_entry::<P24>(bump, s),
                        ES::B4096 => vec_entry::<Pad<4096>>(bump, s),
                        ES::M1 => vec_entry::<Pad<1048576>>(bump, s),
                    },
                    s.es.size(),
                )
            };
            // for reserve-like entries the impossible quantity is len + count
            judge(s, got, esz, s.count, &mut ck, &mut stats);
            let owned = unsafe { Box::from_raw(ptr) };
            let _ = simalloc::arena_call(0, move || drop(owned));
        }
    } else {
        match s.min_align {
            1 => run6::<1>(s, &mut ck, &mut stats),
            2 => run6::<2>(s, &mut ck, &mut stats),
            4 => run6::<4>(s, &mut ck, &mut stats),
            8 => run6::<8>(s, &mut ck, &mut stats),
            _ => run6::<16>(s, &mut ck, &mut stats),
        }
    }
    let mut ev = Vec::new();
    simalloc::take_events(&mut ev);
    for e in &ev {
        match e {
            Event::Request { outcome: Refusal::Exhaustion, .. } => stats.hit("refusal_exhaustion"),
            Event::Anomaly { kind, .. } => {
                let prop = if *kind == simalloc::Anomaly::UnboundedRetries { "C09" } else { "C01" };
                ck.violate(prop, &format!("{:?}", kind).to_lowercase(), "", String::new());
                if prop == "C09" {
                    ck.violate("C19", "boundary-request-does-not-terminate", "", String::new());
                }
            }
            _ => {}
        }
    }
    simalloc::end_run();
    let mut fp = Fp::new();
    fp.mix(crate::rng::fnv(&format!("{:?}", s)));
    WReport {
        violations: ck.viol,
        stats,
        fp: fp.0,
    }
}

// ---- W6 generation: a grid walked by run index ------------------------------------------------

pub fn gen_w6(seed: u64) -> W6Script {
    let mut r = crate::rng::Rng::new(seed).sub(6);
    let entries = [
        Entry6::WithCapacity,
        Entry6::AllocLayout { align_log2: 0 },
        Entry6::FillWith,
        Entry6::FillCopy,
        Entry6::FillClone,
        Entry6::FillDefault,
        Entry6::FillIter,
        Entry6::SliceCopyZst,
        Entry6::TryFillWith,
        Entry6::TryFillIter,
        Entry6::VecWithCapacity,
        Entry6::VecReserve,
        Entry6::VecReserveExact,
        Entry6::VecTryReserve,
        Entry6::VecTryReserveExact,
        Entry6::VecResize,
        Entry6::VecExtendSlicesCopy,
        Entry6::VecSpliceHint,
        Entry6::VecZstFull,
        Entry6::StrWithCapacity,
        Entry6::StrReserve,
        Entry6::StrReserveExact,
    ];
    let mut entry = *r.pick(&entries);
    if let Entry6::AllocLayout { .. } = entry {
        entry = Entry6::AllocLayout {
            align_log2: match r.below(4) {
                0 => r.below(5) as u8,
                1 => 12 + r.below(10) as u8,
                2 => 20 + r.below(44) as u8,
                _ => r.below(64) as u8,
            },
        };
    }
    let es = match entry {
        Entry6::SliceCopyZst | Entry6::VecZstFull => ES::Z0,
        Entry6::StrWithCapacity | Entry6::StrReserve | Entry6::StrReserveExact | Entry6::WithCapacity | Entry6::AllocLayout { .. } => ES::B1,
        _ => *r.pick(&ALL_ES),
    };
    let sz = es.size().max(1);
    let align = match entry {
        Entry6::AllocLayout { align_log2 } => 1usize << align_log2.min(63),
        _ => es.align(),
    };
    let j = r.below(5) as usize;
    let count = match r.below(14) {
        0 => usize::MAX - j,
        1 => (usize::MAX / sz).wrapping_add(1).wrapping_sub(j.min(2)),
        2 => usize::MAX / sz - j,
        3 => (isize::MAX as usize / sz).wrapping_add(2).wrapping_sub(j),
        4 => isize::MAX as usize / sz - j,
        5 => ((isize::MAX as usize + 1 - align.min(1 << 62)) / sz).wrapping_add(2).wrapping_sub(j),
        6 => (1usize << 40) / sz + j,
        7 => (MACHINE_BYTES / sz).wrapping_add(2).wrapping_sub(j),
        8 => MACHINE_BYTES / sz / 2 + j,
        9 => (1usize << 32) / sz + j,
        10 => j,
        11 => 100 + j,
        12 => (1usize << 63) / sz + j,
        _ => (isize::MAX as usize - 4095 * j) / sz,
    };
    W6Script {
        min_align: 1 << r.below(5),
        entry,
        fallible: r.chance(1, 2),
        es,
        count,
        state: *r.pick(&[State6::Fresh, State6::WithChunk, State6::SmallLimit, State6::NonEmpty]),
    }
}

// =================================================================================================
// W7: capacity and growth (C18)
// =================================================================================================

#[derive(Clone, Debug, PartialEq, Serialize, Deserialize)]
pub enum W7Script {
    /// with_capacity(cap), then requests (multiples of MIN_ALIGN, align <= MIN_ALIGN) totalling cap
    CapExact { min_align: usize, cap: usize, parts: Vec<usize> },
    /// growth workload: no faults, no limit
    Growth { min_align: usize, ctor_cap: usize, reqs: Vec<(usize, usize)>, placement: Placement },
    /// Vec with reserved capacity accepts that many elements without moving
    VecPromise {
        esize: ES,
        n: usize,
        via_reserve: bool,
        pre: usize,
        noise: Vec<usize>,
        /// how the promised elements arrive: 0 push, 1 try_reserve(1)+push, 2 reserve(1)+push,
        /// 3 try_reserve_exact(1)+push, 4 reserve_exact(1)+push, 5 extend_from_slice_copy(&[x]),
        /// 6 extend(once), 7 try_reserve(all that is left)+push
        #[serde(default)]
        fill_via: u8,
    },
    /// push-only growth
    VecGrowth {
        esize: ES,
        n: usize,
        noise_every: usize,
        /// 0 push, 1 reserve(1)+push, 2 try_reserve(1)+push, 3 extend(one), 4 insert(0, ..), 5 extend_from_slice(&[x]),
        /// 6 extend_from_slice_copy(&[x]), 7 extend_from_slices_copy(&[&[x]]), 8 resize(len + 1, x),
        /// 9 append(one-element vector), 10 splice(len.., once), 11 extend(&[x]) by reference
        #[serde(default)]
        via: u8,
    },
    StrPromise { n: usize, via_reserve: bool, pre: usize },
    /// fallible initialisers that fail again and again while nothing is stored: the arena must
    /// not keep asking the global allocator (every failed value is rewound)
    FailingInits { min_align: usize, ctor_cap: usize, n: usize, big: bool, try_: bool, successes_every: usize },
    StrGrowth {
        n: usize,
        /// 0 push, 1 push_str("z"), 2 insert(0,'z') (n capped), 3 extend(once char), 4 extend(["z"]),
        /// 5 write!(.., "z"), 6 += "z", 7 insert_str(len, "z")
        #[serde(default)]
        via: u8,
    },
}

fn ck7(viol: &mut Vec<Violation>, name: &str, oracle: &str, facts: &str, detail: String) {
    let sig = if facts.is_empty() { format!("C18/{}", oracle) } else { format!("C18/{}/{}", oracle, facts) };
    viol.push(Violation {
        prop: "C18".into(),
        sig,
        op: name.into(),
        at: 0,
        detail,
    });
}

fn requests(ev: &[Event]) -> Vec<(usize, bool)> {
    ev.iter()
        .filter_map(|e| match e {
            Event::Request { size, outcome, .. } => Some((*size, *outcome == Refusal::Granted)),
            _ => None,
        })
        .collect()
}

fn growth<const M: usize>(ctor_cap: usize, reqs: &[(usize, usize)], k: usize, viol: &mut Vec<Violation>, stats: &mut Stats) {
    let b = match simalloc::arena_call(0, || if ctor_cap == 0 { Bump::<M>::with_min_align() } else { Bump::<M>::with_min_align_and_capacity(ctor_cap) }) {
        Ok(b) => b,
        Err(_) => return,
    };
    let mut tprime: usize = 0;
    let mut failed = false;
    for &(size, align) in reqs {
        let l = match Layout::from_size_align(size, align) {
            Ok(l) => l,
            Err(_) => continue,
        };
        let a = align.max(M);
        tprime += ((size + a - 1) & !(a - 1)) + a;
        if !matches!(simalloc::arena_call(0, || b.try_alloc_layout(l).is_ok()), Ok(true)) {
            failed = true;
            break;
        }
    }
    let mut ev = Vec::new();
    simalloc::take_events(&mut ev);
    let rq = requests(&ev);
    if !failed && rq.iter().all(|r| r.1) && !rq.is_empty() {
        stats.hit("w7_growth_workload");
        let sizes: Vec<usize> = rq.iter().map(|r| r.0).collect();
        if let Some(i) = (1..sizes.len()).find(|&i| sizes[i] < sizes[i - 1]) {
            ck7(viol, "growth", "chunk-smaller-than-previous", "", format!("request sizes {:?} (index {})", &sizes[..sizes.len().min(12)], i));
        } else if let Some(i) = (1..sizes.len()).find(|&i| sizes[i] + 64 < 2 * sizes[i - 1]) {
            // nothing was refused and no limit is set: "doubling while the allocator and limit permit"
            ck7(viol, "growth", "chunk-not-doubled", "", format!("request sizes {:?} (index {})", &sizes[..sizes.len().min(12)], i));
        }
        let first = sizes[0];
        let n = sizes.len() as f64;
        let bound = (((4 * tprime + 8192) as f64) / 448.0).log2() + 1.0;
        // a capacity constructor contributes one request of its own
        let allowed = bound + if ctor_cap > 0 { 1.0 } else { 0.0 };
        if n > allowed.ceil() {
            ck7(
                viol,
                "growth",
                "too-many-allocator-requests",
                "",
                format!("{} requests for {} bytes stored (bound {:.1}); sizes {:?}", sizes.len(), tprime, allowed, &sizes[..sizes.len().min(12)]),
            );
        }
        let held: usize = sizes.iter().sum();
        let hb = 8 * tprime + 16384 + first + k * sizes.len();
        if held > hb {
            ck7(viol, "growth", "memory-held-not-within-constant-factor", "", format!("held {} for {} bytes stored (bound {})", held, tprime, hb));
        }
        stats.add("w7_bytes_stored", tprime as u64);
        // C18(b): chunk_capacity never overstates
        let cc = b.chunk_capacity();
        let n2 = cc & !(M - 1);
        if n2 > 0 {
            let l = Layout::from_size_align(n2, 1).unwrap();
            let ok = simalloc::arena_call(0, || b.try_alloc_layout(l).is_ok());
            let mut ev2 = Vec::new();
            simalloc::take_events(&mut ev2);
            if !matches!(ok, Ok(true)) || !requests(&ev2).is_empty() {
                ck7(viol, "growth", "chunk-capacity-overstated", "", format!("chunk_capacity {} but {} bytes needed the allocator", cc, n2));
            }
        }
    }
    let _ = simalloc::arena_call(0, move || drop(b));
}

fn failing_inits<const M: usize>(ctor_cap: usize, n: usize, big: bool, try_: bool, successes_every: usize, viol: &mut Vec<Violation>, stats: &mut Stats) {
    let b = match simalloc::arena_call(0, || if ctor_cap == 0 { Bump::<M>::with_min_align() } else { Bump::<M>::with_min_align_and_capacity(ctor_cap) }) {
        Ok(b) => b,
        Err(_) => return,
    };
    let mut stored = 0usize;
    let slot = if big { 3008 } else { 608 };
    for i in 0..n {
        let r = simalloc::arena_call(0, || {
            if big {
                if try_ {
                    b.try_alloc_try_with(|| Err::<[u64; 375], u32>(7)).is_err()
                } else {
                    b.alloc_try_with(|| Err::<[u64; 375], u32>(7)).is_err()
                }
            } else if try_ {
                b.try_alloc_try_with(|| Err::<[u64; 75], u32>(7)).is_err()
            } else {
                b.alloc_try_with(|| Err::<[u64; 75], u32>(7)).is_err()
            }
        });
        if !matches!(r, Ok(true)) {
            break;
        }
        if successes_every > 0 && i % successes_every == 0 {
            let _ = simalloc::arena_call(0, || {
                b.alloc(i as u64);
            });
            stored += 8 + M;
        }
    }
    let mut ev = Vec::new();
    simalloc::take_events(&mut ev);
    let rq = requests(&ev);
    stats.hit("w7_failing_inits");
    // bytes that ever had to be resident at once: one slot plus what was kept
    let tprime = slot + 2 * M + stored;
    let bound = (((4 * tprime + 8192) as f64) / 448.0).log2() + 1.0 + if ctor_cap > 0 { 1.0 } else { 0.0 };
    if rq.len() as f64 > bound.ceil() {
        ck7(
            viol,
            "failing-initialisers",
            "too-many-allocator-requests",
            "failing-initialisers",
            format!("{} allocator requests while {} failed initialisers left nothing behind and {} bytes were stored (bound {:.1}); sizes {:?}", rq.len(), n, stored, bound, rq.iter().map(|r| r.0).take(10).collect::<Vec<_>>()),
        );
    }
    let _ = simalloc::arena_call(0, move || drop(b));
}

fn cap_exact<const M: usize>(cap: usize, parts: &[usize], viol: &mut Vec<Violation>, stats: &mut Stats) {
    let b = match simalloc::arena_call(0, || Bump::<M>::with_min_align_and_capacity(cap)) {
        Ok(b) => b,
        Err(_) => return,
    };
    let mut total = 0usize;
    let mut ok = true;
    for &p in parts {
        let size = p / M * M;
        if size == 0 || total + size > cap {
            continue;
        }
        total += size;
        let l = Layout::from_size_align(size, M.min(1 << (size.trailing_zeros().min(4)))).unwrap();
        if !matches!(simalloc::arena_call(0, || b.try_alloc_layout(l).is_ok()), Ok(true)) {
            ok = false;
            break;
        }
    }
    // top up to exactly cap (rounded down to MIN_ALIGN)
    let rest = (cap - total) / M * M;
    if ok && rest > 0 {
        let l = Layout::from_size_align(rest, 1).unwrap();
        ok = matches!(simalloc::arena_call(0, || b.try_alloc_layout(l).is_ok()), Ok(true));
    }
    let mut ev = Vec::new();
    simalloc::take_events(&mut ev);
    let rq = requests(&ev);
    stats.hit("w7_cap_exact");
    if !ok {
        ck7(viol, "with_capacity", "capacity-not-served", "", format!("capacity {}: a request within the capacity failed", cap));
    } else if rq.len() != 1 {
        ck7(
            viol,
            "with_capacity",
            "capacity-needed-more-memory",
            "",
            format!("capacity {} served with {} allocator requests {:?}", cap, rq.len(), &rq[..rq.len().min(6)]),
        );
    }
    let _ = simalloc::arena_call(0, move || drop(b));
}

fn vec_promise<T: Copy + Default + 'static>(bump: &'static Bump, n: usize, via_reserve: bool, pre: usize, noise: &[usize], fill_via: u8, viol: &mut Vec<Violation>, stats: &mut Stats) {
    let esz = std::mem::size_of::<T>();
    let n = n.min((2 << 20) / esz.max(1));
    let mut v: BVec<'static, T> = if via_reserve {
        let mut v = BVec::new_in(bump);
        let r = b_call(|| {
            for _ in 0..pre {
                v.push(T::default());
            }
            v.reserve(n);
        });
        if r.is_err() {
            std::mem::forget(v);
            return;
        }
        v
    } else {
        match b_call(|| BVec::with_capacity_in(n, bump)) {
            Ok(v) => v,
            Err(_) => return,
        }
    };
    // a reservation the allocation limit refuses must not count as reserved
    {
        let cap0 = v.capacity();
        bump.set_allocation_limit(Some(bump.allocated_bytes()));
        let refused = b_call(|| v.try_reserve(v.capacity() + 100_000).is_err());
        bump.set_allocation_limit(None);
        if refused == Ok(true) && esz > 0 && v.capacity() != cap0 {
            ck7(viol, "vec", "refused-reservation-counted-as-capacity", "", format!("capacity {} -> {} after try_reserve returned Err", cap0, v.capacity()));
            std::mem::forget(v);
            return;
        }
    }
    let start = v.len();
    if v.capacity() < start + n {
        ck7(viol, "vec", "reserved-capacity-short", "", format!("len {} + {} > capacity {}", start, n, v.capacity()));
        std::mem::forget(v);
        return;
    }
    stats.hit("w7_vec_promise");
    let (buf, cap) = (v.as_ptr() as usize, v.capacity());
    for i in 0..n {
        // neighbours keep allocating in the same arena meanwhile
        if let Some(&s) = noise.get(i % noise.len().max(1)) {
            if i % 3 == 0 && s > 0 {
                let _ = b_call(|| bump.alloc_layout(Layout::from_size_align(s, 1).unwrap()));
            }
        }
        let left = n - i;
        let _ = b_call(|| match fill_via {
            1 => {
                let _ = v.try_reserve(1);
                v.push(T::default())
            }
            2 => {
                v.reserve(1);
                v.push(T::default())
            }
            3 => {
                let _ = v.try_reserve_exact(1);
                v.push(T::default())
            }
            4 => {
                v.reserve_exact(1);
                v.push(T::default())
            }
            5 => v.extend_from_slice_copy(&[T::default()]),
            6 => v.extend(std::iter::once(T::default())),
            7 => {
                let _ = v.try_reserve(left);
                v.push(T::default())
            }
            _ => v.push(T::default()),
        });
        if esz > 0 && (v.as_ptr() as usize != buf || v.capacity() != cap) {
            ck7(
                viol,
                "vec",
                "vec-moved-within-reserved-capacity",
                "",
                format!("push {} of {} promised (start len {}) moved the buffer or changed capacity {} -> {}", i + 1, n, start, cap, v.capacity()),
            );
            break;
        }
    }
    std::mem::forget(v);
}

fn vec_growth<T: Copy + Default + 'static>(bump: &'static Bump, n: usize, noise_every: usize, via: u8, viol: &mut Vec<Violation>, stats: &mut Stats) {
    let esz = std::mem::size_of::<T>();
    if esz == 0 {
        return;
    }
    let n = n.min((4 << 20) / esz);
    let mut v: BVec<'static, T> = BVec::new_in(bump);
    let mut reallocs = 0u32;
    let mut cap = v.capacity();
    stats.hit("w7_vec_growth");
    for i in 0..n {
        if noise_every > 0 && i % noise_every == 0 {
            let _ = b_call(|| bump.alloc(0u8));
        }
        let n_eff = if via == 4 { n.min(3000) } else { n };
        if i >= n_eff {
            break;
        }
        let r = b_call(|| match via {
            1 => {
                v.reserve(1);
                v.push(T::default())
            }
            2 => {
                let _ = v.try_reserve(1);
                v.push(T::default())
            }
            3 => v.extend(std::iter::once(T::default())),
            4 => v.insert(0, T::default()),
            5 => v.extend_from_slice(&[T::default()]),
            6 => v.extend_from_slice_copy(&[T::default()]),
            7 => v.extend_from_slices_copy(&[&[T::default()]]),
            8 => {
                let l = v.len();
                v.resize(l + 1, T::default())
            }
            9 => {
                let mut one = bumpalo::vec![in bump; T::default()];
                v.append(&mut one)
            }
            10 => {
                let l = v.len();
                drop(v.splice(l.., std::iter::once(T::default())))
            }
            11 => v.extend(&[T::default()]),
            _ => v.push(T::default()),
        });
        if r.is_err() {
            break;
        }
        if v.capacity() != cap {
            if cap > 0 && v.capacity() < 2 * cap {
                let how = [
                    "push",
                    "reserve(1)+push",
                    "try_reserve(1)+push",
                    "extend",
                    "insert",
                    "extend_from_slice",
                    "extend_from_slice_copy",
                    "extend_from_slices_copy",
                    "resize",
                    "append",
                    "splice",
                    "extend-by-ref",
                ][via.min(11) as usize];
                ck7(viol, "vec", "vec-growth-not-geometric", how, format!("capacity {} -> {} at len {} growing by {}", cap, v.capacity(), v.len(), how));
                break;
            }
            cap = v.capacity();
            reallocs += 1;
        }
    }
    let bound = (n.max(2) as f64).log2() + 3.0;
    if viol.is_empty() && reallocs as f64 > bound {
        ck7(viol, "vec", "too-many-vec-reallocations", "", format!("{} reallocations for {} pushes (bound {:.1})", reallocs, n, bound));
    }
    std::mem::forget(v);
}

pub fn exec_w7(s: &W7Script, k: usize) -> WReport {
    let placement = match s {
        W7Script::Growth { placement, .. } => *placement,
        _ => Placement::Seeded(7),
    };
    simalloc::begin_run(placement);
    crate::track::reset_ledger();
    let mut viol = Vec::new();
    let mut stats = Stats::default();
    stats.steps += 1;
    match s {
        W7Script::CapExact { min_align, cap, parts } => match min_align {
            1 => cap_exact::<1>(*cap, parts, &mut viol, &mut stats),
            2 => cap_exact::<2>(*cap, parts, &mut viol, &mut stats),
            4 => cap_exact::<4>(*cap, parts, &mut viol, &mut stats),
            8 => cap_exact::<8>(*cap, parts, &mut viol, &mut stats),
            _ => cap_exact::<16>(*cap, parts, &mut viol, &mut stats),
        },
        W7Script::FailingInits { min_align, ctor_cap, n, big, try_, successes_every } => match min_align {
            1 => failing_inits::<1>(*ctor_cap, *n, *big, *try_, *successes_every, &mut viol, &mut stats),
            2 => failing_inits::<2>(*ctor_cap, *n, *big, *try_, *successes_every, &mut viol, &mut stats),
            4 => failing_inits::<4>(*ctor_cap, *n, *big, *try_, *successes_every, &mut viol, &mut stats),
            8 => failing_inits::<8>(*ctor_cap, *n, *big, *try_, *successes_every, &mut viol, &mut stats),
            _ => failing_inits::<16>(*ctor_cap, *n, *big, *try_, *successes_every, &mut viol, &mut stats),
        },
        W7Script::Growth { min_align, ctor_cap, reqs, .. } => match min_align {
            1 => growth::<1>(*ctor_cap, reqs, k, &mut viol, &mut stats),
            2 => growth::<2>(*ctor_cap, reqs, k, &mut viol, &mut stats),
            4 => growth::<4>(*ctor_cap, reqs, k, &mut viol, &mut stats),
            8 => growth::<8>(*ctor_cap, reqs, k, &mut viol, &mut stats),
            _ => growth::<16>(*ctor_cap, reqs, k, &mut viol, &mut stats),
        },
        _ => {
            if let Ok(b) = simalloc::arena_call(0, Bump::new) {
                let ptr: *mut Bump = Box::into_raw(Box::new(b));
                let bump: &'static Bump = unsafe { &*ptr };
                match s {
                    W7Script::VecPromise { esize, n, via_reserve, pre, noise, fill_via } => match esize {
                        ES::B1 => vec_promise::<u8>(bump, *n, *via_reserve, *pre, noise, *fill_via, &mut viol, &mut stats),
                        ES::B3 => vec_promise::<Pad<3>>(bump, *n, *via_reserve, *pre, noise, *fill_via, &mut viol, &mut stats),
                        ES::B8 => vec_promise::<P8>(bump, *n, *via_reserve, *pre, noise, *fill_via, &mut viol, &mut stats),
                        ES::B24 => vec_promise::<P24>(bump, *n, *via_reserve, *pre, noise, *fill_via, &mut viol, &mut stats),
                        _ => vec_promise::<Pad<64>>(bump, *n, *via_reserve, *pre, noise, *fill_via, &mut viol, &mut stats),
                    },
                    W7Script::VecGrowth { esize, n, noise_every, via } => match esize {
                        ES::B1 => vec_growth::<u8>(bump, *n, *noise_every, *via, &mut viol, &mut stats),
                        ES::B3 => vec_growth::<Pad<3>>(bump, *n, *noise_every, *via, &mut viol, &mut stats),
                        ES::B8 => vec_growth::<P8>(bump, *n, *noise_every, *via, &mut viol, &mut stats),
                        ES::B24 => vec_growth::<P24>(bump, *n, *noise_every, *via, &mut viol, &mut stats),
                        _ => vec_growth::<Pad<64>>(bump, *n, *noise_every, *via, &mut viol, &mut stats),
                    },
                    W7Script::StrPromise { n, via_reserve, pre } => {
                        let mut st = BString::new_in(bump);
                        let r = if *via_reserve {
                            b_call(|| {
                                for _ in 0..*pre {
                                    st.push('x');
                                }
                                st.reserve(*n);
                            })
                        } else {
                            b_call(|| BString::with_capacity_in(*n, bump)).map(|x| {
                                st = x;
                            })
                        };
                        let _ = r;
                        let (buf, cap) = (st.as_ptr() as usize, st.capacity());
                        stats.hit("w7_str_promise");
                        if cap < st.len() + n {
                            ck7(&mut viol, "string", "reserved-capacity-short", "", format!("{} + {} > {}", st.len(), n, cap));
                        } else {
                            for i in 0..*n {
                                let _ = b_call(|| bump.alloc(1u16));
                                let _ = b_call(|| st.push('y'));
                                if st.as_ptr() as usize != buf || st.capacity() != cap {
                                    ck7(&mut viol, "string", "string-moved-within-reserved-capacity", "", format!("push {} of {}", i + 1, n));
                                    break;
                                }
                            }
                        }
                        std::mem::forget(st);
                    }
                    W7Script::StrGrowth { n, via } => {
                        let n = &(if *via == 2 { (*n).min(3000) } else { *n });
                        let mut st = BString::new_in(bump);
                        let mut cap = st.capacity();
                        let mut reallocs = 0;
                        stats.hit("w7_str_growth");
                        for _ in 0..*n {
                            let _ = b_call(|| match via {
                                1 => st.push_str("z"),
                                2 => st.insert(0, 'z'),
                                3 => st.extend(std::iter::once('z')),
                                4 => st.extend(["z"].iter().copied()),
                                5 => {
                                    use std::fmt::Write;
                                    let _ = write!(st, "z");
                                }
                                6 => st += "z",
                                7 => {
                                    let l = st.len();
                                    st.insert_str(l, "z")
                                }
                                _ => st.push('z'),
                            });
                            if st.capacity() != cap {
                                if cap > 0 && st.capacity() < 2 * cap {
                                    ck7(&mut viol, "string", "string-growth-not-geometric", "", format!("{} -> {}", cap, st.capacity()));
                                    break;
                                }
                                cap = st.capacity();
                                reallocs += 1;
                            }
                        }
                        let bound = ((*n).max(2) as f64).log2() + 3.0;
                        if viol.is_empty() && reallocs as f64 > bound {
                            ck7(&mut viol, "string", "too-many-string-reallocations", "", format!("{} for {} pushes", reallocs, n));
                        }
                        std::mem::forget(st);
                    }
                    _ => {}
                }
                let owned = unsafe { Box::from_raw(ptr) };
                let _ = simalloc::arena_call(0, move || drop(owned));
            }
        }
    }
    let mut ev = Vec::new();
    simalloc::take_events(&mut ev);
    simalloc::end_run();
    let mut fp = Fp::new();
    fp.mix(crate::rng::fnv(&format!("{:?}", s)));
    WReport { violations: viol, stats, fp: fp.0 }
}

pub fn gen_w7(seed: u64) -> W7Script {
    let mut r = crate::rng::Rng::new(seed).sub(7);
    let min_align = 1usize << r.below(5);
    if r.chance(1, 10) {
        return W7Script::FailingInits {
            min_align,
            ctor_cap: *r.pick(&[0usize, 0, 100, 1000, 4000]),
            n: 2 + r.usize_below(30),
            big: r.chance(1, 2),
            try_: r.chance(1, 2),
            successes_every: *r.pick(&[0usize, 0, 1, 3, 7]),
        };
    }
    match r.below(10) {
        0 | 1 => {
            let cap = match r.below(5) {
                0 => 1 + r.usize_below(64),
                1 => 1 + r.usize_below(1000),
                2 => [447usize, 448, 449, 511, 512, 513, 4047, 4048, 4049, 4095, 4096, 4097][r.usize_below(12)],
                3 => 1 + r.usize_below(100_000),
                _ => 1 + r.usize_below(4_000_000),
            };
            let parts = (0..r.usize_below(12)).map(|_| r.usize_below(cap / 2 + 2)).collect();
            W7Script::CapExact { min_align, cap, parts }
        }
        2..=5 => {
            // total volume over several orders of magnitude, capped by the simulated machine
            let volume = match r.below(4) {
                0 => 1_000 + r.usize_below(9_000),
                1 => 10_000 + r.usize_below(90_000),
                2 => 100_000 + r.usize_below(900_000),
                _ => 1_000_000 + r.usize_below(1_000_000),
            };
            let class = r.below(5);
            let mut reqs = Vec::new();
            let mut total = 0;
            // class 4: a ramp, every request a little larger than the one before (so that it
            // tends to be larger than the current chunk but smaller than twice that)
            let mut ramp = 200 + r.usize_below(9000);
            let factor = 102 + r.usize_below(60);
            while total < volume && reqs.len() < 20_000 {
                let size = match class {
                    4 => {
                        ramp = ramp * factor / 100 + r.usize_below(64);
                        ramp.min(3 << 20)
                    }
                    0 => 1 + r.usize_below(16),
                    1 => 1 + r.usize_below(256),
                    2 => 1 + r.usize_below(5000),
                    _ => {
                        if r.chance(1, 8) {
                            4096 + r.usize_below(40_000)
                        } else {
                            1 + r.usize_below(128)
                        }
                    }
                };
                let amax = if r.chance(1, 10) { 8 } else { 4 };
                let align = 1usize << r.below(amax);
                reqs.push((size, align));
                total += size;
            }
            W7Script::Growth {
                min_align,
                ctor_cap: if r.chance(1, 3) { r.usize_below(5000) } else { 0 },
                reqs,
                placement: Placement::Seeded(r.next()),
            }
        }
        6 | 7 => W7Script::VecPromise {
            esize: *r.pick(&[ES::B1, ES::B3, ES::B8, ES::B24, ES::B4096]),
            n: [0usize, 1, 2, 7, 100, 1000, 5000][r.usize_below(7)] + r.usize_below(5),
            via_reserve: r.chance(1, 2),
            pre: r.usize_below(20),
            noise: (0..r.usize_below(4)).map(|_| r.usize_below(600)).collect(),
            fill_via: if r.chance(1, 2) { 0 } else { r.below(8) as u8 },
        },
        8 => {
            if r.chance(1, 2) {
                W7Script::VecGrowth {
                    esize: *r.pick(&[ES::B1, ES::B3, ES::B8, ES::B24, ES::B4096]),
                    n: [10usize, 100, 1000, 10_000, 100_000][r.usize_below(5)],
                    noise_every: [0usize, 1, 3, 50][r.usize_below(4)],
                    via: r.below(12) as u8,
                }
            } else {
                W7Script::StrGrowth { n: [10usize, 1000, 100_000][r.usize_below(3)], via: r.below(8) as u8 }
            }
        }
        _ => W7Script::StrPromise {
            n: [0usize, 1, 10, 1000][r.usize_below(4)] + r.usize_below(9),
            via_reserve: r.chance(1, 2),
            pre: r.usize_below(30),
        },
    }
}
