#!/bin/sh
# run the given checks against the ORIGINAL (pre-fix) tree, then restore the working tree
git -C /repo checkout a858d0a -- src
for p in "$@"; do /verif/check run $p --tier quick 2>&1 | cut -c1-260; done
git -C /repo checkout HEAD -- src
git -C /repo status --short
