#!/bin/bash
# apply a seeded change to /repo, run the given checks, undo it straight afterwards
# usage: tools_seeded.sh <patch.diff> <tier> <prop>...
patch=$1; tier=$2; shift 2
git -C /repo apply $patch || { echo "patch does not apply"; exit 2; }
for p in "$@"; do
  /verif/check run $p --tier $tier 2>&1 | grep -E "^VIOLATION|signature:|^C[0-9]+ (quick|thorough)|KNOWN|HARNESS" | cut -c1-200
done
git -C /repo checkout -- .
git -C /repo status --short
